; time.Duration.Round / Truncate (GOROOT/src/time/time.go, go1.26) against the
; prelude's durRound / durTrunc, for |d| <= 2^62 and 0 < m <= 2^62 (no int64
; overflow, so uint64(x)+uint64(x) in lessThanHalf does not wrap and the
; overflow exits `return minDuration/maxDuration` are unreachable).
; Each (check-sat) must answer unsat.
(define-fun godiv ((a Int) (b Int)) Int (ite (>= a 0) (ite (> b 0) (div a b) (- (div a (- b)))) (ite (> b 0) (- (div (- a) b)) (div (- a) (- b)))))
(define-fun gomod ((a Int) (b Int)) Int (- a (* b (godiv a b))))
(define-fun durTrunc ((d Int) (m Int)) Int (- d (gomod d m)))
(define-fun durRound ((d Int) (m Int)) Int
  (let ((r (gomod d m)))
    (ite (< d 0)
      (ite (< (+ (- r) (- r)) m) (- d r) (- (- d r) m))
      (ite (< (+ r r) m) (- d r) (+ (- d r) m)))))
(declare-const d Int)
(declare-const m Int)
(define-fun B () Int 4611686018427387904)
(assert (and (<= (- B) d) (<= d B) (< 0 m) (<= m B)))
; Go:  r := d % m; if d < 0 { r = -r; if r+r < m { return d + r }; if d1 := d - m + r; d1 < d { return d1 }; return minDuration }
;      if r+r < m { return d - r }; if d1 := d + m - r; d1 > d { return d1 }; return maxDuration
(define-fun goRound () Int
  (let ((r (gomod d m)))
    (ite (< d 0)
      (let ((rn (- r)))
        (ite (< (+ rn rn) m) (+ d rn)
          (let ((d1 (+ (- d m) rn))) (ite (< d1 d) d1 (- 9223372036854775808)))))
      (ite (< (+ r r) m) (- d r)
        (let ((d1 (- (+ d m) r))) (ite (> d1 d) d1 9223372036854775807))))))
(push)
(assert (not (= goRound (durRound d m))))
(check-sat)
(pop)
; the result stays within int64 and the remainder has the sign of d and magnitude < m
(push)
(assert (not (and (<= (- 9223372036854775808) goRound) (<= goRound 9223372036854775807))))
(check-sat)
(pop)
; Go:  Truncate: if m <= 0 { return d }; return d - d%m
(push)
(assert (not (= (- d (gomod d m)) (durTrunc d m))))
(check-sat)
(pop)
; Go's % truncates towards zero: |d % m| < m and d % m has the sign of d (or is 0); d == m*(d/m) + d%m
(push)
(assert (not (and (< (ite (< (gomod d m) 0) (- (gomod d m)) (gomod d m)) m) (=> (> d 0) (>= (gomod d m) 0)) (=> (< d 0) (<= (gomod d m) 0)))))
(check-sat)
(pop)
