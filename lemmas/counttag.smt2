; Inductive proofs of the two countTag lemmas that lib/prelude.smt2 asserts as
; axioms, from the two definitional axioms alone. Each (check-sat) must answer
; unsat. Run by tools/lemmas.sh (thorough tier).
(declare-datatypes ((Iface 0)) (((mk-iface (itag Int) (ival Int)))))
(declare-fun countTag ((Array Int Iface) Int Int) Int)
(assert (forall ((a (Array Int Iface)) (t Int)) (! (= (countTag a 0 t) 0) :pattern ((countTag a 0 t)))))
(assert (forall ((a (Array Int Iface)) (n Int) (t Int))
  (! (=> (> n 0) (= (countTag a n t) (+ (countTag a (- n 1) t) (ite (= (itag (select a (- n 1))) t) 1 0))))
     :pattern ((countTag a n t)))))
(declare-const a (Array Int Iface))
(declare-const t Int)
(declare-const j Int)
(declare-const n Int)
; L1 bounded: 0 <= countTag(a,j,t) <= j for j >= 0, by induction on j
(push) ; base j = 0
(assert (not (and (<= 0 (countTag a 0 t)) (<= (countTag a 0 t) 0))))
(check-sat)
(pop)
(push) ; step: holds for j-1 (j > 0) ==> holds for j
(assert (> j 0))
(assert (and (<= 0 (countTag a (- j 1) t)) (<= (countTag a (- j 1) t) (- j 1))))
(assert (not (and (<= 0 (countTag a j t)) (<= (countTag a j t) j))))
(check-sat)
(pop)
; L2 monotone: 0 <= j <= n ==> countTag(a,j,t) <= countTag(a,n,t), by induction on n from j
(push) ; base n = j
(assert (not (<= (countTag a j t) (countTag a j t))))
(check-sat)
(pop)
(push) ; step: j <= n-1 and countTag(j) <= countTag(n-1) ==> countTag(j) <= countTag(n)
(assert (and (<= 0 j) (<= j (- n 1))))
(assert (<= (countTag a j t) (countTag a (- n 1) t)))
(assert (not (<= (countTag a j t) (countTag a n t))))
(check-sat)
(pop)
; L3 strict: 0 <= j < n and itag(a[j]) = t ==> countTag(a,j,t) < countTag(a,n,t), by induction on n from j+1 (using L2)
(push) ; base n = j+1
(assert (and (<= 0 j) (= (itag (select a j)) t)))
(assert (not (< (countTag a j t) (countTag a (+ j 1) t))))
(check-sat)
(pop)
(push) ; step: j < n-1, strict for n-1 ==> strict for n
(assert (and (<= 0 j) (< j (- n 1)) (= (itag (select a j)) t)))
(assert (< (countTag a j t) (countTag a (- n 1) t)))
(assert (not (< (countTag a j t) (countTag a n t))))
(check-sat)
(pop)
