package main

import (
	"fmt"
	"go/types"
	"sort"
	"strings"

	"golang.org/x/tools/go/ssa"
)

// Closure identity. go/ssa names function literals by ordinal (F$1, F$2, ...),
// and contracts on closures use those names. Adding, removing or moving a
// function literal would shift the ordinals and bind every closure contract of
// F to the wrong function. The hints file therefore records, for every function
// with literals, a fingerprint of each: its signature and how the function
// value is used in the enclosing function (deferred, started with go, called,
// passed as argument i of which callee, stored, returned). When the literals of
// F no longer match the recorded list position by position, the two lists are
// aligned in order (longest common subsequence on signature+use, then on
// signature alone for what is left) and every matched literal is given the name
// the contracts know it by. A wrong alignment can only make obligations fail or
// leave a contract without a function (reported as a bind violation): contracts
// are proved against whatever body they are bound to, never assumed.

type closureHint struct {
	Name string `json:"name"`
	Sig  string `json:"sig"`
	Use  string `json:"use"`
}

// nameOverride: the contract name of a function literal whose ordinal changed.
var nameOverride = map[*ssa.Function]string{}

// sigString: parameter and result types only (parameter names may change).
func sigString(fn *ssa.Function) string {
	q := func(p *types.Package) string { return p.Name() }
	tup := func(t *types.Tuple) string {
		var s []string
		for i := 0; i < t.Len(); i++ {
			s = append(s, types.TypeString(t.At(i).Type(), q))
		}
		return "(" + strings.Join(s, ", ") + ")"
	}
	v := ""
	if fn.Signature.Variadic() {
		v = "..."
	}
	return "func" + tup(fn.Signature.Params()) + v + " " + tup(fn.Signature.Results())
}

// closureUse describes how the enclosing function uses the function literal a.
func closureUse(a *ssa.Function) string {
	par := a.Parent()
	if par == nil {
		return ""
	}
	uses := map[string]bool{}
	calleeName := func(c *ssa.CallCommon) string {
		if c.IsInvoke() {
			return "iface." + c.Method.Name()
		}
		if f := c.StaticCallee(); f != nil {
			if f.Parent() != nil {
				return "closure"
			}
			n := f.Name()
			if f.Pkg != nil {
				n = f.Pkg.Pkg.Name() + "." + n
			}
			if recv := f.Signature.Recv(); recv != nil {
				n = types.TypeString(recv.Type(), func(p *types.Package) string { return p.Name() }) + "." + f.Name()
			}
			return n
		}
		return "dyn"
	}
	var classify func(in ssa.Instruction, v ssa.Value, depth int)
	classify = func(in ssa.Instruction, v ssa.Value, depth int) {
		switch in := in.(type) {
		case ssa.CallInstruction:
			kind := "call"
			switch in.(type) {
			case *ssa.Defer:
				kind = "defer"
			case *ssa.Go:
				kind = "go"
			}
			c := in.Common()
			if c.Value == v {
				uses[kind] = true
			}
			for i, arg := range c.Args {
				if arg == v {
					uses[fmt.Sprintf("%s arg%d of %s", kind, i, calleeName(c))] = true
				}
			}
		case *ssa.Store:
			if in.Val == v {
				switch ad := in.Addr.(type) {
				case *ssa.Alloc:
					uses["var"] = true
				case *ssa.FieldAddr:
					st := deref(ad.X.Type()).Underlying().(*types.Struct)
					uses["field "+st.Field(ad.Field).Name()] = true
				default:
					uses["store"] = true
				}
			}
		case *ssa.Return:
			uses["return"] = true
		case *ssa.DebugRef:
		case ssa.Value:
			if depth < 3 {
				if rs := in.Referrers(); rs != nil {
					for _, r := range *rs {
						classify(r, in, depth+1)
					}
				}
			} else {
				uses["other"] = true
			}
		default:
			uses["other"] = true
		}
	}
	found := false
	for _, b := range par.Blocks {
		for _, in := range b.Instrs {
			if mc, ok := in.(*ssa.MakeClosure); ok && mc.Fn == a {
				found = true
				if rs := mc.Referrers(); rs != nil {
					for _, r := range *rs {
						classify(r, mc, 0)
					}
				}
			}
		}
	}
	if !found {
		// no captured variables: the function is used as a plain value
		for _, b := range par.Blocks {
			for _, in := range b.Instrs {
				for _, op := range in.Operands(nil) {
					if *op == ssa.Value(a) {
						classify(in, a, 0)
					}
				}
			}
		}
	}
	var us []string
	for u := range uses {
		us = append(us, u)
	}
	sort.Strings(us)
	return strings.Join(us, "; ")
}

func closureHintsOf(fn *ssa.Function) []closureHint {
	var out []closureHint
	for _, a := range fn.AnonFuncs {
		out = append(out, closureHint{Name: shortName(a), Sig: sigString(a), Use: closureUse(a)})
	}
	return out
}

// lcs returns the pairs (i, j) of a longest common subsequence of a and b.
func lcs(a, b []string) [][2]int {
	n, m := len(a), len(b)
	t := make([][]int, n+1)
	for i := range t {
		t[i] = make([]int, m+1)
	}
	for i := n - 1; i >= 0; i-- {
		for j := m - 1; j >= 0; j-- {
			if a[i] == b[j] {
				t[i][j] = t[i+1][j+1] + 1
			} else if t[i+1][j] >= t[i][j+1] {
				t[i][j] = t[i+1][j]
			} else {
				t[i][j] = t[i][j+1]
			}
		}
	}
	var out [][2]int
	i, j := 0, 0
	for i < n && j < m {
		switch {
		case a[i] == b[j]:
			out = append(out, [2]int{i, j})
			i++
			j++
		case t[i+1][j] >= t[i][j+1]:
			i++
		default:
			j++
		}
	}
	return out
}

// alignClosures gives the function literals of fn (and, recursively, theirs)
// the names the contracts know them by.
func alignClosures(fn *ssa.Function, notes *[]string) {
	if len(fn.AnonFuncs) == 0 {
		if h := nameHints[shortName(fn)]; h == nil || len(h.Closures) == 0 {
			return
		}
	}
	defer func() {
		for _, a := range fn.AnonFuncs {
			alignClosures(a, notes)
		}
	}()
	name := shortName(fn)
	old := nameHints[name]
	if old == nil || len(old.Closures) == 0 {
		return
	}
	cur := closureHintsOf(fn)
	same := len(cur) == len(old.Closures)
	if same {
		for i := range cur {
			if cur[i].Sig != old.Closures[i].Sig || cur[i].Use != old.Closures[i].Use {
				same = false
			}
		}
	}
	if same {
		return // same literals in the same order
	}
	key := func(h closureHint, full bool) string {
		if full {
			return h.Sig + " | " + h.Use
		}
		return h.Sig
	}
	oldTo := map[int]int{} // old index -> new index
	newTo := map[int]int{}
	for _, full := range []bool{true, false} {
		var oi, ni []int
		var ok, nk []string
		for i, h := range old.Closures {
			if _, done := oldTo[i]; !done {
				oi = append(oi, i)
				ok = append(ok, key(h, full))
			}
		}
		for j, h := range cur {
			if _, done := newTo[j]; !done {
				ni = append(ni, j)
				nk = append(nk, key(h, full))
			}
		}
		for _, pr := range lcs(ok, nk) {
			oldTo[oi[pr[0]]] = ni[pr[1]]
			newTo[ni[pr[1]]] = oi[pr[0]]
		}
	}
	// A literal that is gone may have been turned into a named function or method
	// (its body moved, the call site kept: `defer func(){...}()` -> `defer w.cleanup()`).
	// If exactly one function of the module without hints (i.e. new since the
	// contracts were written) with the same signature is used in fn the way the
	// literal was (deferred, started with go, or called), the literal's contract
	// is bound to it.
	for i, oc := range old.Closures {
		if _, matched := oldTo[i]; matched {
			continue
		}
		var cands []*ssa.Function
		seenC := map[*ssa.Function]bool{}
		for _, b := range fn.Blocks {
			for _, in := range b.Instrs {
				ci, ok := in.(ssa.CallInstruction)
				if !ok {
					continue
				}
				kind := "call"
				switch in.(type) {
				case *ssa.Defer:
					kind = "defer"
				case *ssa.Go:
					kind = "go"
				}
				if oc.Use != kind {
					continue
				}
				g := ci.Common().StaticCallee()
				if g == nil || g.Parent() != nil || g.Pkg == nil || fn.Pkg == nil || g.Pkg != fn.Pkg || seenC[g] {
					continue
				}
				if _, known := nameHints[shortName(g)]; known {
					continue
				}
				if _, taken := nameOverride[g]; taken {
					continue
				}
				if sigString(g) != oc.Sig {
					continue
				}
				seenC[g] = true
				cands = append(cands, g)
			}
		}
		if len(cands) == 1 {
			nameOverride[cands[0]] = oc.Name
			*notes = append(*notes, fmt.Sprintf("function %s is used where the function literal %s was: the literal's contract is bound to it", cands[0].String(), oc.Name))
		}
	}
	// A literal that is gone may now be produced by a factory literal (two
	// identical worker literals replaced by `worker := func(dst) func() {...}`):
	// look for a literal nested in one of fn's unmatched literals with the same
	// signature.
	for i, oc := range old.Closures {
		if _, matched := oldTo[i]; matched {
			continue
		}
		taken := false
		for _, n := range nameOverride {
			if n == oc.Name {
				taken = true
			}
		}
		if taken {
			continue
		}
		var found *ssa.Function
		var walk func(f *ssa.Function, depth int)
		walk = func(f *ssa.Function, depth int) {
			for _, a := range f.AnonFuncs {
				if found != nil {
					return
				}
				if _, done := nameOverride[a]; !done && depth > 0 && sigString(a) == oc.Sig {
					found = a
					return
				}
				walk(a, depth+1)
			}
		}
		for j, a := range fn.AnonFuncs {
			if _, m := newTo[j]; m {
				continue // a matched literal keeps its own nested literals
			}
			if found == nil {
				walk(a, 1)
			}
		}
		if found != nil {
			nameOverride[found] = oc.Name
			oldTo[i] = -1
			*notes = append(*notes, fmt.Sprintf("function literal %s (nested) is the one contracts call %s", found.String(), oc.Name))
		}
	}
	for j, a := range fn.AnonFuncs {
		natural := shortName(a)
		if i, ok := newTo[j]; ok {
			if old.Closures[i].Name != natural {
				nameOverride[a] = old.Closures[i].Name
				*notes = append(*notes, fmt.Sprintf("function literal %s is the one contracts call %s (literals of %s were added, removed or moved)", natural, old.Closures[i].Name, name))
			}
		} else {
			nameOverride[a] = fmt.Sprintf("%s$new%d", name, j+1)
		}
	}
}

var closureNotes []string

func alignAllClosures(prog *ssa.Program, fns map[*ssa.Function]bool) {
	if len(nameHints) == 0 {
		return
	}
	var tops []*ssa.Function
	for fn := range fns {
		if fn.Parent() == nil && fn.Pkg != nil && strings.HasPrefix(fn.Pkg.Pkg.Path(), modPath) {
			tops = append(tops, fn)
		}
	}
	sort.Slice(tops, func(i, j int) bool { return tops[i].String() < tops[j].String() })
	for _, fn := range tops {
		alignClosures(fn, &closureNotes)
	}
}
