package main

import (
	"math/big"
	"fmt"
	"go/types"

	"golang.org/x/tools/go/ssa"
)

// withGuard runs f under an extra path condition and merges the state back.
func (x *Exec) withGuard(cond string, f func()) {
	if cond == "true" {
		f()
		return
	}
	before := x.st
	savedGuard := x.guard
	x.st = before.clone()
	x.guard = and(savedGuard, cond)
	f()
	after := x.st
	x.guard = savedGuard
	x.st = x.enc.mergeStates([]*State{after, before}, []string{cond, not(cond)})
}

// chanPatterns: names under which at send/recv clauses may refer to a channel.
func (x *Exec) chanPatterns(ch ssa.Value) []string {
	var ps []string
	if n := x.sourceName(ch); n != "" {
		ps = append(ps, n)
	}
	return x.aliasedPatterns(ps)
}

// atChan runs at send/recv/close clauses for a channel operation and the
// built-in semantics of well-known channels.
func (x *Exec) atChan(what string, chv ssa.Value, ch Val, v Val, c *ssa.CallCommon) {
	pats := x.chanPatterns(chv)
	e := x.enc
	// built-in: receive from ctx.Done() means the context is cancelled
	if what == "recv" {
		if call, ok := chv.(*ssa.Call); ok && call.Call.IsInvoke() && call.Call.Method.Name() == "Done" {
			ctx := x.val(call.Call.Value)
			x.envStep()
			d := x.ghostLoad("done", x.st)
			e.assume(x.guard, fmt.Sprintf("(select %s (ival %s))", d.T, ctx.T))
		}
	}
	if x.fc == nil {
		return
	}
	for _, at := range x.fc.Ats {
		if at.What != what {
			continue
		}
		match := false
		for _, p := range pats {
			if p == at.Pattern {
				match = true
			}
		}
		if !match && ch.T != "" && isPlainIdent(at.Pattern) && !x.hasSourceName(at.Pattern) {
			// the hook names a variable that no longer exists under that name (a
			// renamed or rewritten range variable): match by value
			if pv, ok := x.tryEvalName(at.Pattern); ok && pv.Sort == x.materialize(ch).Sort && pv.GT != nil && types.Identical(pv.GT, chv.Type()) {
				match = true
				if cv := x.materialize(ch); pv.T != cv.T {
					// must be the same channel: proved, not assumed
					x.oblige("bind", "at-"+at.Pattern+"-is-this-channel", clauseTags(at), len(clauseTags(at)) == 0,
						fmt.Sprintf("(= %s %s)", pv.T, cv.T), "the hook's variable "+at.Pattern+" denotes the channel operated on here", at.Where)
				}
			}
		}
		if !match {
			continue
		}
		at.Used = true
		binders := map[string]Val{}
		if len(at.Binders) > 0 {
			binders[at.Binders[0]] = v
		}
		if len(at.Binders) > 1 && what == "recv" && x.recvOK.T != "" {
			// second binder of a receive hook: the comma-ok result (false: channel closed)
			binders[at.Binders[1]] = x.recvOK
		}
		env := x.envAt(nil)
		env.binders = binders
		g := "true"
		if at.When != nil {
			g = x.evalBool(at.When, env, nil)
		}
		saved := x.guard
		x.guard = and(saved, g)
		for _, cl := range at.Asserts {
			t := x.evalBool(cl.Expr, env, cl)
			x.oblige("assert", cl.Label, cl.Tags, len(cl.Tags) == 0, t, cl.Src, cl.Where)
			e.assume(x.guard, t)
		}
		for _, cl := range at.Assumes {
			e.assume(x.guard, x.evalBool(cl.Expr, env, cl))
		}
		x.guard = saved
		x.applyUpdatesGuarded(at, binders, g)
	}
}

// envStep models the environment (other goroutines): contexts may become
// cancelled, the clock may advance. Monotone.
func (x *Exec) envStep() {
	e := x.enc
	if _, ok := e.cs.Ghosts["done"]; !ok {
		return
	}
	old := x.ghostLoad("done", x.st)
	nw := e.heapHavoc(x.st, "G:done")
	e.assume("", fmt.Sprintf("(forall ((c Int)) (! (=> (select %s c) (select %s c)) :pattern ((select %s c))))", old.T, nw, nw))
	e.assumptionsUsed["context cancellation is monotone; between two observations any context may become cancelled"] = true
}

func (x *Exec) sendInstr(in *ssa.Send) {
	ch := x.val(in.Chan)
	v := x.materialize(x.val(in.X))
	x.atChan("send", in.Chan, ch, v, nil)
}

func (x *Exec) recvInstr(in *ssa.UnOp) {
	ch := x.val(in.X)
	et := in.X.Type().Underlying().(*types.Chan).Elem()
	v := x.freshVal("recv", et, x.brk(), x.guard)
	if in.CommaOk {
		ok := x.freshVal("recvok", types.Typ[types.Bool], "", x.guard)
		x.recvOK = ok
		x.atChan("recv", in.X, ch, v, nil)
		x.recvOK = Val{}
		x.vals[in] = Val{Tup: []Val{v, ok}, Sort: "Tuple", GT: in.Type()}
		return
	}
	x.recvOK = x.freshVal("recvok", types.Typ[types.Bool], "", x.guard) // not observed by the code: the channel may be closed
	x.atChan("recv", in.X, ch, v, nil)
	x.recvOK = Val{}
	x.vals[in] = v
}

func (x *Exec) selectInstr(in *ssa.Select) {
	e := x.enc
	n := len(in.States)
	idx := e.fresh("sel", "Int")
	lo := 0
	if !in.Blocking {
		lo = -1
	}
	e.assume(x.guard, fmt.Sprintf("(and (<= %s %s) (< %s %d))", smtInt(big.NewInt(int64(lo))), idx, idx, n))
	var recvs []Val
	okv := x.freshVal("selok", types.Typ[types.Bool], "", x.guard)
	for i, s := range in.States {
		ch := x.val(s.Chan)
		cond := fmt.Sprintf("(= %s %d)", idx, i)
		if s.Dir == types.RecvOnly {
			et := s.Chan.Type().Underlying().(*types.Chan).Elem()
			v := x.freshVal("selrecv", et, x.brk(), x.guard)
			recvs = append(recvs, v)
			sv := s
			x.withGuard(cond, func() { x.recvOK = okv; x.atChan("recv", sv.Chan, ch, v, nil); x.recvOK = Val{} })
		} else {
			v := x.materialize(x.val(s.Send))
			sv := s
			// `at trysend`: the attempt itself (whether or not the send is chosen)
			x.atChan("trysend", sv.Chan, ch, v, nil)
			x.withGuard(cond, func() { x.atChan("send", sv.Chan, ch, v, nil) })
		}
	}
	tup := []Val{{T: idx, Sort: "Int", GT: types.Typ[types.Int]}, okv}
	tup = append(tup, recvs...)
	x.vals[in] = Val{Tup: tup, Sort: "Tuple", GT: in.Type()}
}

func (x *Exec) rangeInstr(in *ssa.Range) {
	e := x.enc
	mt, ok := in.X.Type().Underlying().(*types.Map)
	if !ok {
		x.fail("range over %s", in.X.Type())
	}
	_, _, ks, _ := e.mapKeysFor(mt)
	// iterator = ghost visited set, kept as a local ghost heap key per Range instruction
	k := x.iterKey(in)
	e.heapSort[k] = fmt.Sprintf("(Array %s Bool)", ks)
	x.st.H[k] = fmt.Sprintf("((as const (Array %s Bool)) false)", ks)
	x.vals[in] = Val{T: k, Sort: "ITER", GT: in.X.Type()}
	x.iterMap[in] = x.val(in.X)
}

func (x *Exec) nextInstr(in *ssa.Next) {
	e := x.enc
	if in.IsString {
		x.fail("range over string")
	}
	it := x.val(in.Iter)
	rng := in.Iter.(*ssa.Range)
	m := x.iterMap[rng]
	mt := rng.X.Type().Underlying().(*types.Map)
	dom, val, ks, vs := e.mapKeysFor(mt)
	visited := e.heapGet(x.st, it.T)
	hd := fmt.Sprintf("(select %s %s)", e.heapGet(x.st, dom), m.T)
	hv := fmt.Sprintf("(select %s %s)", e.heapGet(x.st, val), m.T)
	ok := e.fresh("next_ok", "Bool")
	k := e.fresh("next_k", ks)
	for _, f := range e.typeFacts(k, mt.Key(), x.brk(), 0) {
		e.assume(x.guard, f)
	}
	// ok: k is an unvisited key of the map; !ok: every key has been visited
	e.assume(x.guard, fmt.Sprintf("(=> %s (and (not (= %s 0)) (select %s %s) (not (select %s %s))))", ok, m.T, hd, k, visited, k))
	e.assume(x.guard, fmt.Sprintf("(=> (not %s) (or (= %s 0) (forall ((q %s)) (! (=> (select %s q) (select %s q)) :pattern ((select %s q))))))", ok, m.T, ks, hd, visited, visited))
	e.heapSet(x.st, it.T, ite(ok, fmt.Sprintf("(store %s %s true)", visited, k), visited))
	v := e.define("next_v", vs, fmt.Sprintf("(select %s %s)", hv, k))
	for _, f := range e.typeFacts(v, mt.Elem(), x.brk(), 0) {
		e.assume(and(x.guard, ok), f)
	}
	x.vals[in] = Val{Tup: []Val{{T: ok, Sort: "Bool", GT: types.Typ[types.Bool]}, {T: k, Sort: ks, GT: mt.Key()}, {T: v, Sort: vs, GT: mt.Elem()}}, Sort: "Tuple", GT: in.Type()}
	e.assumptionsUsed["range over a map visits each key exactly once in an arbitrary order (ghost visited set)"] = true
}

func isPlainIdent(s string) bool {
	if s == "" {
		return false
	}
	for _, r := range s {
		if !(r == '_' || r >= 'a' && r <= 'z' || r >= 'A' && r <= 'Z' || r >= '0' && r <= '9') {
			return false
		}
	}
	return true
}

// tryEvalName evaluates a contract name in the current state; ok is false when
// it does not bind.
func (x *Exec) tryEvalName(name string) (v Val, ok bool) {
	defer func() {
		if r := recover(); r != nil {
			if _, isU := r.(unsupported); isU {
				v, ok = Val{}, false
				return
			}
			panic(r)
		}
	}()
	ex, err := parseSpec(name)
	if err != nil {
		return Val{}, false
	}
	return x.materialize(x.eval(ex, x.envAt(nil))), true
}

// hasSourceName: the function being executed (still) has a parameter, result,
// captured variable or local of that name.
func (x *Exec) hasSourceName(name string) bool {
	if x.fn == nil {
		return false
	}
	if x.srcNames == nil {
		x.srcNames = map[string]bool{}
		h := hintsOf(x.fn)
		for _, l := range [][]string{h.Params, h.Results, h.FreeVars} {
			for _, n := range l {
				x.srcNames[n] = true
			}
		}
		for _, l := range h.Locals {
			x.srcNames[l.Name] = true
		}
	}
	return x.srcNames[name]
}

// iterKey: the ghost-state key of a map iterator. Inside a helper executed in
// place the key carries the helper's name, so it cannot collide with an
// iterator of the caller.
func (x *Exec) iterKey(rg *ssa.Range) string {
	pre := ""
	if x.inlined && x.fn != nil {
		pre = sanitize(shortName(x.fn)) + "_"
	}
	return fmt.Sprintf("L:iter_%s%s_%d", pre, sanitize(rg.Name()), rg.Block().Index)
}
