package main

import (
	"fmt"
	"go/ast"
	"go/constant"
	"go/types"
	"strings"

	"golang.org/x/tools/go/ssa"
)

// calleeKey resolves the contract for a call.
func (x *Exec) calleeContract(c *ssa.CallCommon) (*FuncContract, string, *ssa.Function) {
	cs := x.enc.cs
	if c.IsInvoke() {
		recvT := c.Value.Type()
		key := "iface:" + shortTypeName(recvT) + "." + c.Method.Name()
		if fc, ok := cs.Funcs[key]; ok {
			return fc, key, nil
		}
		// embedded interface methods (e.g. error in net.Error): try method's declaring interface
		return nil, key, nil
	}
	if fn := c.StaticCallee(); fn != nil {
		name := shortName(fn)
		if fc, ok := cs.Funcs[name]; ok {
			return fc, name, fn
		}
		if o := fn.Origin(); o != nil {
			if fc, ok := cs.Funcs[shortName(o)]; ok {
				return fc, name, fn
			}
		}
		full := fn.String()
		if fc, ok := cs.Funcs[full]; ok {
			return fc, full, fn
		}
		if fn.Parent() != nil {
			return nil, name, fn
		}
		return nil, full, fn
	}
	// dynamic call: provenance
	key := x.funcValueKey(c.Value)
	if _, ok := cs.Funcs[key]; !ok {
		// fall back to a contract for every func value of this signature
		tk := "functype:" + strings.NewReplacer(" ", "", "(", "[", ")", "]").Replace(shortTypeName(c.Value.Type().Underlying()))
		if _, ok := cs.Funcs[tk]; ok {
			key = tk
		}
	}
	if fc, ok := cs.Funcs[key]; ok {
		if same := fc.Opts["same"]; same != "" {
			if fc2, ok := cs.Funcs[same]; ok {
				return fc2, same, nil
			}
		}
		return fc, key, nil
	}
	return nil, key, nil
}

func (x *Exec) funcValueKey(v ssa.Value) string {
	switch v := v.(type) {
	case *ssa.UnOp:
		if fa, ok := v.X.(*ssa.FieldAddr); ok {
			st := deref(fa.X.Type())
			fld := st.Underlying().(*types.Struct).Field(fa.Field)
			return "funcfield:" + shortTypeName(st) + "." + fld.Name()
		}
		if fv, ok := v.X.(*ssa.FreeVar); ok {
			return "funcparam:" + x.name + "." + fv.Name()
		}
		if al, ok := v.X.(*ssa.Alloc); ok {
			// a local holding a func value: use the provenance of the single stored value
			var stored ssa.Value
			n := 0
			for _, ref := range *al.Referrers() {
				if st, ok := ref.(*ssa.Store); ok && st.Addr == al {
					stored = st.Val
					n++
				}
			}
			if n == 1 {
				return x.funcValueKey(stored)
			}
		}
	case *ssa.Field:
		st := v.X.Type()
		fld := st.Underlying().(*types.Struct).Field(v.Field)
		return "funcfield:" + shortTypeName(st) + "." + fld.Name()
	case *ssa.Parameter:
		if x.inlined && x.parent != nil && x.paramArgs != nil {
			if a, ok := x.paramArgs[v]; ok {
				return x.parent.funcValueKey(a) // the argument's provenance in the caller
			}
		}
		return "funcparam:" + x.name + "." + v.Name()
	case *ssa.FreeVar:
		return "funcparam:" + x.name + "." + v.Name()
	case *ssa.Phi:
		return "funcparam:" + x.name + "." + v.Comment
	case *ssa.Extract:
		if c, ok := v.Tuple.(*ssa.Call); ok {
			if fn := c.Call.StaticCallee(); fn != nil {
				return fmt.Sprintf("funcresult:%s.%d", shortName(fn), v.Index)
			}
		}
	case *ssa.Call:
		if fn := v.Call.StaticCallee(); fn != nil {
			return "funcresult:" + shortName(fn)
		}
	}
	return "funcvalue:" + x.name + "." + v.Name()
}

func (x *Exec) calleeAssigns(c *ssa.CallCommon) []assignItem {
	fc, _, callee := x.calleeContract(c)
	if _, loopHelper := x.inlineLoopBase[callee]; fc == nil && !c.IsInvoke() && (x.inlinable(callee) || (loopHelper && x.inlinableLoops(callee, true))) {
		return x.inlineAssigns(callee)
	}
	if fc == nil {
		if _, ok := c.Value.(*ssa.Builtin); ok {
			return nil
		}
		if callee != nil {
			switch callee.String() {
			case "fmt.Errorf", "errors.New":
				return []assignItem{{key: "brk", mode: "any"}}
			case "errors.Is":
				return nil
			case "errors.As":
				if mi, ok := c.Args[1].(*ssa.MakeInterface); ok {
					k, _ := x.enc.heapKeyFor(deref(mi.X.Type()))
					return []assignItem{{key: k, mode: "any"}}
				}
			}
		}
		if x.scalarArgsOnly(c) {
			return nil
		}
		return []assignItem{{key: "*", mode: "any"}}
	}
	var out []assignItem
	for _, a := range fc.Assigns {
		it := x.assignKey(a)
		if it.key == "*" {
			for _, pk := range splitList(fc.Opts["preserves"]) {
				it.preserves = append(it.preserves, x.assignKey(pk).key)
			}
		}
		out = append(out, it)
	}
	return out
}

func (x *Exec) call(in ssa.Instruction, c *ssa.CallCommon, res ssa.Value) {
	e := x.enc
	if b, ok := c.Value.(*ssa.Builtin); ok {
		x.builtin(b, c, res)
		return
	}
	var args []Val
	var argNames []string
	var selfVal *Val
	fc, key, callee := x.calleeContract(c)
	if c.IsInvoke() {
		rv := x.val(c.Value)
		x.safety("nil-invoke", fmt.Sprintf("(not (= (itag %s) 0))", rv.T), "method call on nil interface "+c.Value.Name(), c.Pos())
		args = append(args, rv)
		argNames = append(argNames, "self")
	} else if callee == nil {
		fv := x.materialize(x.val(c.Value))
		x.safety("nil-func", fmt.Sprintf("(not (= %s 0))", fv.T), "call of nil func value "+key, c.Pos())
		selfVal = &fv
	}
	for _, a := range c.Args {
		args = append(args, x.materialize(x.val(a)))
	}
	// parameter names
	if callee != nil && len(callee.Params) == len(args) {
		for _, p := range callee.Params {
			argNames = append(argNames, p.Name())
		}
	}
	if fc != nil && len(fc.Params) > 0 {
		if len(fc.Params) != len(args) {
			x.fail("contract %s declares %d parameters, call has %d", key, len(fc.Params), len(args))
		}
		argNames = append([]string(nil), fc.Params...)
	}
	for len(argNames) < len(args) {
		argNames = append(argNames, fmt.Sprintf("arg%d", len(argNames)))
	}
	binders := map[string]Val{}
	for i, n := range argNames {
		binders[n] = args[i]
	}
	if selfVal != nil {
		binders["self"] = *selfVal
	}
	if callee != nil {
		// the callee's parameters may have been renamed since its contract was written
		for o, n := range nameAliases(shortName(callee), callee) {
			if v, ok := binders[n]; ok {
				if _, taken := binders[o]; !taken {
					binders[o] = v
				}
			}
		}
	}
	// a closure called where it was made: its free variables are nameable too
	cells := map[string]cellBind{}
	if mc, ok := c.Value.(*ssa.MakeClosure); ok && callee != nil {
		for i, fv := range callee.FreeVars {
			if i < len(mc.Bindings) {
				pt := deref(fv.Type())
				l := x.locOf(mc.Bindings[i])
				if _, taken := binders[fv.Name()]; !taken {
					cells[fv.Name()] = cellBind{loc: l, typ: pt}
				}
			}
		}
	}
	if callee != nil && len(cells) > 0 {
		for o, n := range nameAliases(shortName(callee), callee) {
			if cb, ok := cells[n]; ok {
				if _, taken := cells[o]; !taken {
					cells[o] = cb
				}
			}
		}
	}
	// special-cased library semantics
	if callee != nil {
		if x.special(callee, c, args, res, in) {
			x.atClauses("call", x.callPatterns(c, callee), args, nil, nil, c)
			return
		}
	}
	pats := x.callPatterns(c, callee)
	// caller-side pre asserts
	x.atClauses("call", pats, args, nil, nil, c)
	var resT types.Type = c.Signature().Results()
	var rnames []string
	if callee != nil {
		rs := callee.Signature.Results()
		for i := 0; i < rs.Len(); i++ {
			rnames = append(rnames, rs.At(i).Name())
		}
	}
	if fc != nil && len(fc.Results) > 0 {
		rnames = fc.Results
	}
	pre := x.st.clone()
	x.typeArgFn = callee
	defer func() { x.typeArgFn = nil }()
	_, loopHelper := x.inlineLoopBase[callee]
	if fc == nil && !c.IsInvoke() && (x.inlinable(callee) || (loopHelper && x.inlinableLoops(callee, true))) && len(callee.Params) == len(args) {
		results := x.inlineCall(callee, args, c.Args)
		tupI := resT.(*types.Tuple)
		if res != nil && tupI.Len() > 0 {
			if tupI.Len() == 1 {
				x.vals[res] = results[0]
			} else {
				x.vals[res] = Val{Tup: results, GT: tupI}
			}
		}
		x.atClauses("call-post", pats, args, results, pre, c)
		return
	}
	if fc == nil {
		if x.scalarArgsOnly(c) {
			e.assumptionsUsed["uncontracted callee with scalar-only arguments has no effect on modelled state: "+key] = true
		} else {
			// unknown callee: havoc everything
			e.note("%s: call to %s has no contract: all state havoced", x.name, key)
			x.havocAll(passedRefs(args)...)
			if x.fc != nil {
				x.callerFrame(assignItem{key: "*", mode: "any"}, binders, pre, c)
			}
		}
	} else {
		cenv := &Env{x: x, st: x.st, old: x.st, binders: binders, bound: map[string]Val{}, closed: true, cells: cells}
		caps := map[string]bool{}
		for _, l := range splitList(fc.Opts["capture"]) {
			caps[l] = true
		}
		for _, cl := range fc.Requires {
			if caps[cl.Label] {
				continue // checked where the closure is created
			}
			t := x.evalBool(cl.Expr, cenv, cl)
			tags := append(append([]string(nil), cl.Tags...), x.safetyTags...)
			x.oblige("pre", fmt.Sprintf("%s.%s", shortCallee(key), cl.Label), tags, len(tags) == 0, t, cl.Src, cl.Where+" @call "+x.pos(c.Pos()))
			e.assume(x.guard, t)
		}
		x.curPassed = passedRefs(args)
		x.applyAssigns(fc, binders, pre, c)
	}
	// results
	var rv Val
	tup := resT.(*types.Tuple)
	var results []Val
	switch tup.Len() {
	case 0:
	case 1:
		rv = x.freshVal("ret_"+shortCallee(key), tup.At(0).Type(), x.brk(), x.guard)
		results = []Val{rv}
	default:
		rv = x.freshVal("ret_"+shortCallee(key), tup, x.brk(), x.guard)
		results = rv.Tup
	}
	if res != nil && tup.Len() > 0 {
		x.vals[res] = rv
	}
	for i, r := range results {
		if r.Tup == nil && r.T != "" && (r.Sort == "Int" || r.Sort == "Bool") {
			x.retCount++
			x.inputs[fmt.Sprintf("ret%d:%s.%d", x.retCount, key, i)] = r.T
		}
	}
	if fc != nil {
		cenv := &Env{x: x, st: x.st, old: pre, binders: binders, bound: map[string]Val{}, closed: true, results: results, resNames: rnames, cells: cells}
		if callee != nil {
			cenv.resAlias = nameAliases(shortName(callee), callee)
		}
		_, optTrusted := fc.Opts["trusted"]
		for _, cl := range fc.Ensures {
			assumedCl := false
			for _, l := range splitList(fc.Opts["assume"]) {
				if l == cl.Label {
					assumedCl = true
				}
			}
			if !fc.Trusted && !optTrusted && len(cl.Tags) == 0 && !assumedCl {
				continue // aux clauses are not visible to callers
			}
			if mentionsLocalGhost(cl.Expr, fc) {
				continue // the callee's activation-local ghost state is not visible to callers
			}
			t, ok := x.tryEvalBool(cl.Expr, cenv, cl)
			if !ok {
				// the clause talks about the callee's local variables: it is checked
				// inside the callee but gives callers nothing
				e.note("%s: postcondition %s of %s mentions callee locals; not usable at call sites", x.name, cl.Label, key)
				continue
			}
			e.assume(x.guard, t)
		}
		if fc.Trusted {
			e.assumptionsUsed["assumed contract: "+key] = true
		} else if optTrusted {
			e.assumptionsUsed["trusted in-repo helper ("+fc.Opts["trusted"]+"): "+key] = true
		}
	}
	// caller-side post asserts and ghost updates
	x.atClauses("call-post", pats, args, results, pre, c)
}

// scalarArgsOnly: no argument can carry a reference into modelled state.
func (x *Exec) scalarArgsOnly(c *ssa.CallCommon) bool {
	if c.IsInvoke() {
		return false
	}
	if fn := c.StaticCallee(); fn != nil && fn.Pkg != nil && strings.HasPrefix(fn.Pkg.Pkg.Path(), modPath) {
		return false // functions of the module itself need a contract
	}
	scalar := func(t types.Type) bool {
		t = types.Unalias(t)
		if isNamed(t, "time", "Time") || isNamed(t, "net/netip", "Addr") || isNamed(t, "net/netip", "Prefix") {
			return true
		}
		switch u := t.Underlying().(type) {
		case *types.Basic:
			return u.Kind() != types.UnsafePointer
		}
		return false
	}
	for _, a := range c.Args {
		if !scalar(a.Type()) {
			return false
		}
	}
	return true
}

// tryEvalBool evaluates a clause, reporting false if a name does not bind.
func (x *Exec) tryEvalBool(ex SExpr, env *Env, c *Clause) (t string, ok bool) {
	defer func() {
		if r := recover(); r != nil {
			if u, isU := r.(unsupported); isU && (strings.Contains(u.msg, "unbound name") || strings.Contains(u.msg, "no such address-taken variable") || strings.Contains(u.msg, "no field") || strings.Contains(u.msg, "non-struct value")) {
				t, ok = "", false
				return
			}
			panic(r)
		}
	}()
	return x.evalBool(ex, env, c), true
}

func mentionsLocalGhost(ex SExpr, fc *FuncContract) bool {
	found := false
	var walk func(SExpr)
	walk = func(n SExpr) {
		switch n := n.(type) {
		case *SSel:
			if id, ok := n.X.(*SIdent); ok && id.Name == "ghost" {
				if _, ok := fc.LocalGhost[n.F]; ok {
					found = true
				}
				return
			}
			walk(n.X)
		case *SUnary:
			walk(n.X)
		case *SBinary:
			walk(n.L)
			walk(n.R)
		case *SIndex:
			walk(n.X)
			walk(n.I)
		case *SCall:
			for _, a := range n.Args {
				walk(a)
			}
		}
	}
	walk(ex)
	return found
}

// passedRefs: references handed to a callee (pointer, slice, interface and
// func arguments); a callee that may modify everything may modify what they
// point to, even when the caller allocated it.
func passedRefs(args []Val) []string {
	var out []string
	for _, a := range args {
		switch a.Sort {
		case "Int":
			if a.GT != nil {
				switch a.GT.Underlying().(type) {
				case *types.Pointer, *types.Map, *types.Chan, *types.Signature:
					out = append(out, a.T)
				}
			}
		case "Slice":
			out = append(out, fmt.Sprintf("(sref %s)", a.T))
		case "Iface":
			out = append(out, fmt.Sprintf("(ival %s)", a.T))
		}
	}
	return out
}

func shortCallee(key string) string {
	if i := strings.LastIndex(key, "/"); i >= 0 {
		key = key[i+1:]
	}
	return sanitize(key)
}

func (x *Exec) havocAll(passed ...string) {
	e := x.enc
	ob := e.heapGet(x.st, "brk")
	epochCounter++
	x.st.Epoch = epochCounter
	var keys []string
	for k := range x.st.H {
		keys = append(keys, k)
	}
	sortStrings(keys)
	for _, k := range keys {
		if k == "brk" || strings.HasPrefix(k, "L:") {
			continue
		}
		old := x.st.H[k]
		switch {
		case strings.HasPrefix(k, "H_") || strings.HasPrefix(k, "M_") || strings.HasPrefix(k, "MD_") || strings.HasPrefix(k, "MV_"):
			// cells allocated by this activation (locals, captured variables) are
			// out of the callee's reach unless passed to it
			nw := e.heapHavoc(x.st, k)
			local := fmt.Sprintf("(and (>= r %s) (< r %s))", x.brk0, ob)
			for _, p := range passed {
				local = fmt.Sprintf("(and %s (not (= r %s)))", local, p)
			}
			if x.fn != nil {
				for _, fv := range x.fn.FreeVars {
					if v, ok := x.vals[fv]; ok && v.T != "" {
						local = fmt.Sprintf("(or %s (= r %s))", local, v.T)
					}
				}
			}
			e.assume("", fmt.Sprintf("(forall ((r Int)) (! (=> %s (= (select %s r) (select %s r))) :pattern ((select %s r))))", local, nw, old, nw))
			e.assumptionsUsed["a call that may modify everything does not modify cells allocated by the calling activation (its locals and captured variables)"] = true
		case k == "G:done":
			nw := e.heapHavoc(x.st, k)
			e.assume("", fmt.Sprintf("(forall ((c Int)) (! (=> (select %s c) (select %s c)) :pattern ((select %s c))))", old, nw, nw))
		default:
			delete(x.st.H, k)
		}
	}
	nb := e.heapHavoc(x.st, "brk")
	e.assume("", fmt.Sprintf("(>= %s %s)", nb, ob))
}

func (x *Exec) applyAssigns(fc *FuncContract, binders map[string]Val, pre *State, c *ssa.CallCommon) {
	e := x.enc
	brkPre := e.heapGet(pre, "brk")
	allocates := false
	type grp struct {
		mode string
		ats  []string
	}
	groups := map[string]*grp{}
	var order []string
	for _, a := range fc.Assigns {
		it := x.assignKey(a)
		if it.key == "*" {
			keep := map[string]string{}
			for _, pk := range splitList(fc.Opts["preserves"]) {
				k := x.assignKey(pk).key
				keep[k] = e.heapGet(pre, k)
			}
			x.havocAll(x.curPassed...)
			for k, v := range keep {
				x.st.H[k] = v
			}
			// caller frame: a callee that may modify everything needs a caller
			// that may too (and that promises to preserve no more than the callee)
			if x.fc != nil {
				for k := range keep {
					it.preserves = append(it.preserves, k)
				}
				x.callerFrame(it, binders, pre, c)
			}
			return
		}
		if it.key == "brk" {
			allocates = true
			continue
		}
		g := groups[it.key]
		if g == nil {
			g = &grp{mode: it.mode}
			groups[it.key] = g
			order = append(order, it.key)
		}
		if it.mode == "new" {
			allocates = true
			if g.mode != "any" {
				g.mode = "new"
			}
			continue
		}
		if it.at != nil {
			cenv := &Env{x: x, st: pre, old: pre, binders: binders, bound: map[string]Val{}, closed: true}
			rv := x.eval(it.at, cenv)
			t := rv.T
			if rv.Sort == "Slice" {
				t = fmt.Sprintf("(sref %s)", rv.T)
			}
			g.ats = append(g.ats, t)
			if g.mode == "new" {
				g.mode = "newat"
			} else if g.mode != "any!" {
				g.mode = "at"
			}
		} else {
			g.mode = "any!"
		}
		// caller frame: the callee's writes must be permitted in the caller too
		if x.fc != nil && !strings.HasPrefix(it.key, "L:") {
			x.callerFrame(it, binders, pre, c)
		}
	}
	for _, k := range order {
		g := groups[k]
		if _, known := e.heapSort[k]; !known {
			continue // a component nothing has touched yet: its first read is unconstrained anyway
		}
		old := e.heapGet(pre, k)
		if strings.HasPrefix(k, "G:") || strings.HasPrefix(k, "L:") {
			e.heapHavoc(x.st, k)
			continue
		}
		nw := e.heapHavoc(x.st, k)
		switch g.mode {
		case "any!":
		case "new":
			e.assume("", fmt.Sprintf("(forall ((r Int)) (! (=> (< r %s) (= (select %s r) (select %s r))) :pattern ((select %s r))))", brkPre, nw, old, nw))
		default: // at / newat
			var ex []string
			for _, a := range g.ats {
				ex = append(ex, fmt.Sprintf("(not (= r %s))", a))
			}
			e.assume("", fmt.Sprintf("(forall ((r Int)) (! (=> (and (< r %s) %s) (= (select %s r) (select %s r))) :pattern ((select %s r))))", brkPre, and(ex...), nw, old, nw))
		}
	}
	if allocates {
		nb := e.heapHavoc(x.st, "brk")
		e.assume("", fmt.Sprintf("(>= %s %s)", nb, brkPre))
	}
}

func (x *Exec) callerFrame(it assignItem, binders map[string]Val, pre *State, c *ssa.CallCommon) {
	if pres := x.preservedKeys(); len(pres) > 0 {
		// the caller assigns everything EXCEPT what it promises to preserve
		if it.key == "*" {
			have := map[string]bool{}
			for _, k := range it.preserves {
				have[k] = true
			}
			for k := range pres {
				if !have[k] {
					x.oblige("frame", "call-preserves-"+k, x.frameTags(), len(x.frameTags()) == 0, "false", "callee may modify everything but the caller promises to preserve "+k, x.pos(c.Pos()))
				}
			}
			return
		}
		if pres[it.key] && it.mode != "new" {
			x.oblige("frame", "call-preserves-"+it.key, x.frameTags(), len(x.frameTags()) == 0, "false", "callee modifies "+it.key+" which the caller promises to preserve", x.pos(c.Pos()))
			return
		}
	}
	if strings.HasPrefix(it.key, "G:") {
		for _, a := range x.fc.Assigns {
			if x.assignKey(a).key == it.key || x.assignKey(a).key == "*" {
				return
			}
		}
		x.oblige("frame", "call-"+it.key, x.frameTags(), len(x.frameTags()) == 0, "false", "callee modifies "+it.key+" which the caller's assigns clause omits", x.pos(c.Pos()))
		return
	}
	if it.at == nil {
		for _, a := range x.fc.Assigns {
			ci := x.assignKey(a)
			if ci.key == "*" || (ci.key == it.key && ci.mode == "any" && ci.at == nil) {
				return
			}
		}
		x.oblige("frame", "call-"+it.key, x.frameTags(), len(x.frameTags()) == 0, "false", "callee may modify "+it.key+" anywhere; caller's assigns clause does not allow that", x.pos(c.Pos()))
		return
	}
	cenv := &Env{x: x, st: pre, old: pre, binders: binders, bound: map[string]Val{}, closed: true}
	rv := x.eval(it.at, cenv)
	ref := rv.T
	if rv.Sort == "Slice" {
		ref = fmt.Sprintf("(sref %s)", rv.T)
	}
	saved := x.st
	x.st = pre
	x.frameCheck(it.key, ref, c.Pos())
	x.st = saved
}

// callPatterns: names under which at-clauses may refer to this call.
func (x *Exec) callPatterns(c *ssa.CallCommon, callee *ssa.Function) []string {
	var ps []string
	if c.IsInvoke() {
		ps = append(ps, c.Method.Name(), shortTypeName(c.Value.Type())+"."+c.Method.Name())
		if n := x.sourceName(c.Value); n != "" {
			ps = append(ps, n+"."+c.Method.Name())
		}
		return x.aliasedPatterns(ps)
	}
	if callee != nil {
		ps = append(ps, shortName(callee), callee.Name())
		full := callee.String()
		ps = append(ps, full)
		if callee.Pkg != nil {
			ps = append(ps, callee.Pkg.Pkg.Name()+"."+callee.Name())
		}
		return ps
	}
	if n := x.sourceName(c.Value); n != "" {
		ps = append(ps, n)
	}
	ps = append(ps, x.funcValueKey(c.Value))
	return x.aliasedPatterns(ps)
}

// aliasedPatterns adds, for every pattern that starts with the current name of a
// renamed variable, the pattern under the name the contract was written with.
func (x *Exec) aliasedPatterns(ps []string) []string {
	out := ps
	for _, p := range ps {
		for o, n := range x.alias {
			if p == n {
				out = append(out, o)
			} else if strings.HasPrefix(p, n+".") {
				out = append(out, o+p[len(n):])
			}
		}
	}
	return out
}

// sourceName finds a source-level name for a value (parameter, field, local).
func (x *Exec) sourceName(v ssa.Value) string {
	switch v := v.(type) {
	case *ssa.Parameter:
		return v.Name()
	case *ssa.FreeVar:
		return v.Name()
	case *ssa.Phi:
		return v.Comment
	case *ssa.UnOp:
		if fa, ok := v.X.(*ssa.FieldAddr); ok {
			st := deref(fa.X.Type())
			return st.Underlying().(*types.Struct).Field(fa.Field).Name()
		}
		if fv, ok := v.X.(*ssa.FreeVar); ok {
			return fv.Name()
		}
		if al, ok := v.X.(*ssa.Alloc); ok {
			return al.Comment
		}
	case *ssa.Field:
		return v.X.Type().Underlying().(*types.Struct).Field(v.Field).Name()
	case *ssa.Call:
		if v.Call.IsInvoke() {
			return x.sourceName(v.Call.Value) + "." + v.Call.Method.Name()
		}
		if fn := v.Call.StaticCallee(); fn != nil {
			if fn.Pkg != nil {
				return fn.Pkg.Pkg.Name() + "." + fn.Name()
			}
			return fn.Name()
		}
	case *ssa.MakeChan, *ssa.MakeClosure, *ssa.Alloc, *ssa.Extract:
	}
	// DebugRef naming
	for _, b := range x.fn.Blocks {
		for _, in := range b.Instrs {
			if d, ok := in.(*ssa.DebugRef); ok && d.X == v && !d.IsAddr {
				if id, ok := d.Expr.(*ast.Ident); ok {
					return id.Name
				}
			}
		}
	}
	return ""
}

// atClauses runs the caller's at-clauses matching one of pats.
func (x *Exec) atClauses(what string, pats []string, args []Val, results []Val, pre *State, c *ssa.CallCommon) {
	if x.fc == nil {
		return
	}
	e := x.enc
	post := what == "call-post"
	kind := what
	if post {
		kind = "call"
	}
	for _, at := range x.fc.Ats {
		if at.What != kind {
			continue
		}
		match := false
		for _, p := range pats {
			if p == at.Pattern {
				match = true
			}
		}
		if !match {
			continue
		}
		at.Used = true
		binders := map[string]Val{}
		for i, b := range at.Binders {
			if i < len(args) {
				binders[b] = args[i]
			}
		}
		// invoke: binders skip the receiver unless one more binder than params given
		if c != nil && c.IsInvoke() && len(at.Binders) == len(args)-1 {
			binders = map[string]Val{}
			for i, b := range at.Binders {
				binders[b] = args[i+1]
			}
		}
		needPost := len(at.Results) > 0
		if (what == "call") && needPost {
			continue
		}
		if post && !needPost {
			// asserts were evaluated pre-call; only updates now
			x.applyUpdates(at, binders, nil)
			continue
		}
		env := x.envAt(nil)
		env.binders = binders
		if pre != nil {
			env.old = x.entry
		}
		for i, r := range at.Results {
			if i < len(results) {
				binders[r] = results[i]
			}
		}
		guardExtra := "true"
		if at.When != nil {
			guardExtra = x.evalBool(at.When, env, nil)
		}
		saved := x.guard
		x.guard = and(saved, guardExtra)
		for _, cl := range at.Asserts {
			t, ok := x.tryEvalBool(cl.Expr, env, cl)
			if !ok {
				if at.When == nil {
					x.fail("at-clause %s does not bind at %s", cl.Label, x.posOf(c))
				}
				// the clause cannot be stated at this site (its names mean something
				// else here): then its guard must be false at this site
				t = "false"
			}
			x.oblige("assert", cl.Label, cl.Tags, len(cl.Tags) == 0, t, cl.Src, cl.Where+" @"+x.posOf(c))
			e.assume(x.guard, t)
		}
		for _, cl := range at.Assumes {
			t := x.evalBool(cl.Expr, env, cl)
			e.assume(x.guard, t)
		}
		x.guard = saved
		if what != "call" {
			x.applyUpdatesGuarded(at, binders, guardExtra)
		}
	}
}

func (x *Exec) posOf(c *ssa.CallCommon) string {
	if c == nil {
		return ""
	}
	return x.pos(c.Pos())
}

func (x *Exec) applyUpdates(at *AtClause, binders map[string]Val, _ any) {
	g := "true"
	if at.When != nil {
		env := x.envAt(nil)
		env.binders = binders
		g = x.evalBool(at.When, env, nil)
	}
	x.applyUpdatesGuarded(at, binders, g)
}

func (x *Exec) applyUpdatesGuarded(at *AtClause, binders map[string]Val, g string) {
	e := x.enc
	for _, u := range at.Updates {
		env := x.envAt(nil)
		env.binders = binders
		v := x.eval(u.Expr, env)
		k := x.ghostKey(u.Name)
		if _, ok := e.heapSort[k]; !ok {
			x.ghostLoad(u.Name, x.st)
		}
		cur := e.heapGet(x.st, k)
		e.heapSet(x.st, k, ite(g, v.T, cur))
	}
}

// ---------------------------------------------------------------------------
// builtins and hard-wired library semantics

func (x *Exec) builtin(b *ssa.Builtin, c *ssa.CallCommon, res ssa.Value) {
	e := x.enc
	switch b.Name() {
	case "len", "cap":
		v := x.val(c.Args[0])
		switch t := c.Args[0].Type().Underlying().(type) {
		case *types.Slice:
			x.setTerm(res, fmt.Sprintf("(slen %s)", v.T))
		case *types.Basic:
			x.setTerm(res, fmt.Sprintf("(str_len %s)", v.T))
		case *types.Map:
			e.decl("(declare-fun mapLen (Int) Int)")
			r := x.freshVal("maplen", res.Type(), "", x.guard)
			dom, _, ks, _ := e.mapKeysFor(t)
			hd := e.heapGet(x.st, dom)
			e.assume(x.guard, fmt.Sprintf("(>= %s 0)", r.T))
			e.assume(x.guard, fmt.Sprintf("(= (= %s 0) (or (= %s 0) (forall ((k %s)) (not (select (select %s %s) k)))))", r.T, v.T, ks, hd, v.T))
			x.vals[res] = r
		case *types.Array:
			x.setTerm(res, fmt.Sprint(t.Len()))
		case *types.Chan:
			r := x.freshVal("chanlen", res.Type(), "", x.guard)
			x.vals[res] = r
		default:
			x.fail("len of %s", c.Args[0].Type())
		}
	case "min", "max":
		// Go 1.21 built-ins on integers and durations (mathematical integers)
		vs := make([]Val, len(c.Args))
		for i, a := range c.Args {
			vs[i] = x.materialize(x.val(a))
			if vs[i].Sort != "Int" {
				x.fail("builtin %s on sort %s", b.Name(), vs[i].Sort)
			}
		}
		t := vs[0].T
		for _, v := range vs[1:] {
			if b.Name() == "min" {
				t = fmt.Sprintf("(ite (<= %s %s) %s %s)", t, v.T, t, v.T)
			} else {
				t = fmt.Sprintf("(ite (>= %s %s) %s %s)", t, v.T, t, v.T)
			}
		}
		x.setTerm(res, t)
	case "append":
		x.appendBuiltin(c, res)
	case "close":
		ch := x.val(c.Args[0])
		x.atChan("close", c.Args[0], ch, Val{}, c)
	case "delete", "print", "println":
		x.fail("builtin %s", b.Name())
	case "copy":
		x.fail("builtin copy")
	default:
		x.fail("builtin %s", b.Name())
	}
}

func (x *Exec) appendBuiltin(c *ssa.CallCommon, res ssa.Value) {
	e := x.enc
	st := c.Args[0].Type().Underlying().(*types.Slice)
	key, es := e.memKeyFor(st.Elem())
	a := x.val(c.Args[0])
	b := x.val(c.Args[1])
	if _, isStr := c.Args[1].Type().Underlying().(*types.Basic); isStr {
		x.fail("append of string to []byte")
	}
	h := e.heapGet(x.st, key)
	r := e.alloc(x.st)
	arrS := fmt.Sprintf("(Array Int %s)", es)
	var na string
	// small literal length of b?
	k := literalSliceLen(b.T)
	if k >= 0 && k <= 8 {
		na = fmt.Sprintf("(select %s (sref %s))", h, a.T)
		for i := 0; i < k; i++ {
			na = fmt.Sprintf("(store %s (+ (slen %s) %d) (select (select %s (sref %s)) %d))", na, a.T, i, h, b.T, i)
		}
		na = e.define("appended", arrS, na)
	} else {
		na = e.fresh("appended", arrS)
		e.assume(x.guard, fmt.Sprintf("(forall ((i Int)) (! (=> (and (<= 0 i) (< i (slen %s))) (= (select %s i) (select (select %s (sref %s)) i))) :pattern ((select %s i))))", a.T, na, h, a.T, na))
		e.assume(x.guard, fmt.Sprintf("(forall ((i Int)) (! (=> (and (<= (slen %s) i) (< i (+ (slen %s) (slen %s)))) (= (select %s i) (select (select %s (sref %s)) (- i (slen %s))))) :pattern ((select %s i))))", a.T, a.T, b.T, na, h, b.T, a.T, na))
	}
	e.heapSet(x.st, key, fmt.Sprintf("(store %s %s %s)", h, r, na))
	e.assumptionsUsed["append always yields a fresh backing array (capacity aliasing dropped; no function under contract writes through a slice it also appended to)"] = true
	x.setTerm(res, fmt.Sprintf("(mk-slice %s (+ (slen %s) (slen %s)))", r, a.T, b.T))
}

func literalSliceLen(t string) int {
	// matches "(mk-slice <ref> <n>)"
	if !strings.HasPrefix(t, "(mk-slice ") {
		return -1
	}
	f := strings.Fields(strings.TrimSuffix(t, ")"))
	if len(f) != 3 {
		return -1
	}
	n := 0
	for _, ch := range f[2] {
		if ch < '0' || ch > '9' {
			return -1
		}
		n = n*10 + int(ch-'0')
	}
	return n
}

// special handles fmt.Errorf / errors.Is / errors.As / errors.New.
func (x *Exec) special(callee *ssa.Function, c *ssa.CallCommon, args []Val, res ssa.Value, in ssa.Instruction) bool {
	e := x.enc
	full := callee.String()
	declErr := func() {}
	switch full {
	case "fmt.Errorf", "errors.New":
		declErr()
		r := x.freshVal("err", res.Type(), x.brk(), x.guard)
		e.assume(x.guard, fmt.Sprintf("(and (not (= (itag %s) 0)) (>= (ival %s) 0))", r.T, r.T))
		wrapped := ""
		if full == "fmt.Errorf" {
			if fc, ok := c.Args[0].(*ssa.Const); ok && fc.Value != nil && strings.Contains(constant.StringVal(fc.Value), "%w") {
				// wrapped error: the last error-typed variadic argument
				wrapped = x.lastErrorArg(c.Args[1])
			}
		}
		e.assume(x.guard, fmt.Sprintf("(= (itag %s) %d)", r.T, errTag))
		if wrapped != "" {
			e.assume(x.guard, fmt.Sprintf("(forall ((t Iface)) (! (= (errIs %s t) (or (= %s t) (errIs %s t))) :pattern ((errIs %s t))))", r.T, r.T, wrapped, r.T))
			for _, tn := range x.asTargets() {
				okf, vf := x.errAsFuncs(tn)
				e.assume(x.guard, fmt.Sprintf("(and (= (%s %s) (%s %s)) (= (%s %s) (%s %s)))", okf, r.T, okf, wrapped, vf, r.T, vf, wrapped))
			}
			e.assume(x.guard, fmt.Sprintf("(= (errUnwrap %s) %s)", r.T, wrapped))
		} else {
			e.assume(x.guard, fmt.Sprintf("(forall ((t Iface)) (! (= (errIs %s t) (= %s t)) :pattern ((errIs %s t))))", r.T, r.T, r.T))
			for _, tn := range x.asTargets() {
				okf, _ := x.errAsFuncs(tn)
				e.assume(x.guard, fmt.Sprintf("(not (%s %s))", okf, r.T))
			}
		}
		x.vals[res] = r
		e.assumptionsUsed["fmt.Errorf/errors.New return a non-nil error; %w preserves errors.Is/As classes of the wrapped error, other verbs drop them (from the fmt and errors documentation)"] = true
		return true
	case "errors.Is":
		declErr()
		x.setTerm(res, fmt.Sprintf("(errIs %s %s)", args[0].T, args[1].T))
		e.assumptionsUsed["errors.Is modelled as the reflexive chain-membership relation errIs (custom Is methods ignored)"] = true
		return true
	case "errors.As":
		declErr()
		// target is an interface holding a pointer to the destination variable
		mi, ok := c.Args[1].(*ssa.MakeInterface)
		if !ok {
			x.fail("errors.As with non-literal target")
		}
		dstT := deref(mi.X.Type())
		okf, vf := x.errAsFuncs(dstT)
		okT := fmt.Sprintf("(%s %s)", okf, args[0].T)
		x.setTerm(res, okT)
		// store into target when ok
		l := x.locOf(mi.X)
		var stored string
		if types.IsInterface(dstT) {
			stored = fmt.Sprintf("(%s %s)", vf, args[0].T)
		} else {
			stored = fmt.Sprintf("(ival (%s %s))", vf, args[0].T)
		}
		cur := e.load(x.st, l)
		e.store(x.st, l, ite(okT, stored, cur))
		if types.IsInterface(dstT) {
			e.assume(x.guard, fmt.Sprintf("(=> %s (not (= (itag (%s %s)) 0)))", okT, vf, args[0].T))
		} else {
			e.assume(x.guard, fmt.Sprintf("(=> %s (and (= (itag (%s %s)) %d) (> (ival (%s %s)) 0)))", okT, vf, args[0].T, e.tagOf(dstT), vf, args[0].T))
		}
		e.assume(x.guard, fmt.Sprintf("(=> (= (itag %s) 0) (not %s))", args[0].T, okT))
		e.assumptionsUsed["errors.As modelled by per-target-type functions errAs!T / errAsVal!T preserved through %w wrapping"] = true
		return true
	}
	return false
}

func (x *Exec) errAsFuncs(t types.Type) (string, string) {
	e := x.enc
	n := sanitize(shortTypeName(t))
	okf, vf := "errAs!"+n, "errAsVal!"+n
	e.decl(fmt.Sprintf("(declare-fun %s (Iface) Bool)", okf))
	e.decl(fmt.Sprintf("(declare-fun %s (Iface) Iface)", vf))
	return okf, vf
}

// errTag is the dynamic type tag of errors made by fmt.Errorf / errors.New.
const errTag = 900001

var asTargetCache []types.Type

// asTargets: all target types used with errors.As anywhere in the module.
func (x *Exec) asTargets() []types.Type {
	if asTargetCache != nil {
		return asTargetCache
	}
	seen := map[string]bool{}
	for _, fn := range x.enc.prog.funcs {
		if !strings.Contains(fn.String(), modPath) {
			continue
		}
		for _, b := range fn.Blocks {
			for _, in := range b.Instrs {
				c, ok := in.(*ssa.Call)
				if !ok {
					continue
				}
				if sc := c.Call.StaticCallee(); sc != nil && sc.String() == "errors.As" {
					if mi, ok := c.Call.Args[1].(*ssa.MakeInterface); ok {
						t := deref(mi.X.Type())
						if !seen[typeKey(t)] {
							seen[typeKey(t)] = true
							asTargetCache = append(asTargetCache, t)
						}
					}
				}
			}
		}
	}
	if asTargetCache == nil {
		asTargetCache = []types.Type{}
	}
	return asTargetCache
}

// lastErrorArg finds, in a variadic []interface{} argument, the last element
// whose static type is error, and returns its term.
func (x *Exec) lastErrorArg(v ssa.Value) string {
	sl, ok := v.(*ssa.Slice)
	if !ok {
		return ""
	}
	al, ok := sl.X.(*ssa.Alloc)
	if !ok {
		return ""
	}
	last := ""
	for _, ref := range *al.Referrers() {
		ia, ok := ref.(*ssa.IndexAddr)
		if !ok {
			continue
		}
		for _, r2 := range *ia.Referrers() {
			if st, ok := r2.(*ssa.Store); ok {
				if mi, ok := st.Val.(*ssa.MakeInterface); ok {
					if types.Identical(mi.X.Type(), types.Universe.Lookup("error").Type()) {
						last = x.val(mi.X).T
					}
				} else if ci, ok := st.Val.(*ssa.ChangeInterface); ok {
					if types.Identical(ci.X.Type(), types.Universe.Lookup("error").Type()) {
						last = x.val(ci.X).T
					}
				}
			}
		}
	}
	return last
}

func (x *Exec) goInstr(in *ssa.Go) {
	c := in.Common()
	var args []Val
	for _, a := range c.Args {
		args = append(args, x.materialize(x.val(a)))
	}
	x.atClauses("call", x.callPatterns(c, c.StaticCallee()), args, nil, nil, c)
	x.atClauses("call-post", x.callPatterns(c, c.StaticCallee()), args, nil, x.st, c)
	x.enc.assumptionsUsed["go statements spawn a task verified separately; no interleaving semantics"] = true
}
