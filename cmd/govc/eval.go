package main

import (
	"fmt"
	"go/types"
	"strings"

	"golang.org/x/tools/go/ssa"
)

// Env is the environment for evaluating a spec expression.
type Env struct {
	x       *Exec
	st      *State
	old     *State
	results []Val
	resNames []string
	bound   map[string]Val
	binders map[string]Val
	closed  bool // do not resolve caller-local names (callee contract at a call site)
	atBlock *ssa.BasicBlock
	depth   int
	lits    map[string]string // macro parameters bound to string literals (type names)
	resAlias map[string]string // callee result names renamed since the contract was written
	paramsEntry bool // postconditions: a parameter name denotes the value the caller passed, even if the body reassigns it
	// cells: names bound to memory cells (the captured variables of a closure
	// called where it was made); read in whichever state the expression is
	// evaluated in, so a postcondition sees the value after the call and old()
	// the value before it
	cells map[string]cellBind
}

type cellBind struct {
	loc *Loc
	typ types.Type
}

func (env *Env) with(st *State) *Env {
	n := *env
	n.st = st
	return &n
}

func (env *Env) bind(name string, v Val) *Env {
	n := *env
	n.bound = map[string]Val{}
	for k, vv := range env.bound {
		n.bound[k] = vv
	}
	n.bound[name] = v
	return &n
}

func (x *Exec) evalBool(ex SExpr, env *Env, c *Clause) string {
	v := x.eval(ex, env)
	if v.Sort != "Bool" {
		where := ""
		if c != nil {
			where = c.Where + " " + c.Label
		}
		x.fail("clause %s is not boolean: %s", where, ex)
	}
	return v.T
}

var quantCounter int

func (x *Exec) eval(ex SExpr, env *Env) Val {
	e := x.enc
	switch n := ex.(type) {
	case *SInt:
		return Val{T: n.V, Sort: "Int"}
	case *SStr:
		return Val{T: e.strID(n.V), Sort: "Int", GT: types.Typ[types.String]}
	case *SIdent:
		return x.evalIdent(n.Name, env)
	case *SUnary:
		v := x.eval(n.X, env)
		if n.Op == "!" {
			return Val{T: not(v.T), Sort: "Bool"}
		}
		if v.Sort == "Real" {
			return Val{T: fmt.Sprintf("(- %s)", v.T), Sort: "Real"}
		}
		return Val{T: fmt.Sprintf("(- %s)", v.T), Sort: "Int", GT: v.GT}
	case *SBinary:
		return x.evalBinary(n, env)
	case *SSel:
		if id, ok := n.X.(*SIdent); ok && id.Name == "ghost" {
			return x.ghostLoad(n.F, env.st)
		}
		v := x.eval(n.X, env)
		return x.selectField(v, n.F, env.st)
	case *SIndex:
		v := x.eval(n.X, env)
		i := x.eval(n.I, env)
		return x.indexVal(v, i, env.st)
	case *SCall:
		return x.evalCall(n, env)
	}
	x.fail("cannot evaluate %s", ex)
	return Val{}
}

func (x *Exec) ghostLoad(name string, st *State) Val {
	e := x.enc
	if srt, ok := x.localGhost[name]; ok {
		return Val{T: e.heapGet(st, "L:"+name), Sort: srt}
	}
	g, ok := e.cs.Ghosts[name]
	if !ok {
		x.fail("unknown ghost variable %s", name)
	}
	k := "G:" + name
	e.heapSort[k] = g.Sort
	return Val{T: e.heapGet(st, k), Sort: g.Sort}
}

func (x *Exec) evalIdent(name string, env *Env) Val {
	e := x.enc
	switch name {
	case "true", "false":
		return Val{T: name, Sort: "Bool"}
	case "nil":
		return Val{T: "NIL", Sort: "NIL"}
	case "result":
		if len(env.results) < 1 {
			x.fail("`result` used where there are no results")
		}
		return env.results[0]
	case "brk":
		return Val{T: e.heapGet(env.st, "brk"), Sort: "Int"}
	}
	if strings.HasPrefix(name, "result") {
		var i int
		if _, err := fmt.Sscanf(name, "result%d", &i); err == nil && i < len(env.results) {
			return env.results[i]
		}
	}
	if v, ok := env.bound[name]; ok {
		return v
	}
	if v, ok := env.binders[name]; ok {
		return v
	}
	if cb, ok := env.cells[name]; ok {
		return Val{T: e.load(env.st, cb.loc), Sort: e.sortOf(cb.typ), GT: cb.typ}
	}
	if a, ok := x.alias[name]; ok && !env.closed {
		// the variable was renamed since the contract was written (hints.go)
		x.enc.note("%s: contract name %q re-bound to renamed variable %q", x.name, name, a)
		name = a
	}
	for i, rn := range env.resNames {
		if (rn == name || (rn != "" && rn == env.resAlias[name])) && i < len(env.results) {
			return env.results[i]
		}
	}
	if t, ok := e.cs.Consts[name]; ok {
		return Val{T: t, Sort: x.constSort(t)}
	}
	if sig, ok := e.funSig(name); ok && len(sig.args) == 0 {
		return Val{T: name, Sort: sig.ret}
	}
	if env.paramsEntry && !env.closed && x.fn != nil {
		for _, p := range x.fn.Params {
			if p.Name() == name {
				return x.vals[p]
			}
		}
	}
	if !env.closed && x.fn != nil {
		if v, ok := x.lookupName(name, env.atBlock, env.st, false); ok {
			return x.groundFacts(v, env.st)
		}
	}
	if !env.closed && x.inlined && x.parent != nil {
		// inside an inlined helper the caller's contract may name the caller's variables
		for p := x.parent; p != nil; p = p.parent {
			nm := name
			if a, ok := p.alias[nm]; ok {
				nm = a
			}
			if v, ok := p.lookupName(nm, p.cur, env.st, false); ok {
				return v
			}
		}
	}
	if x.fn != nil && x.fn.Pkg != nil {
		if g, ok := x.fn.Pkg.Members[name].(*ssa.Global); ok {
			return x.globalVal(g)
		}
	}
	if !env.closed && x.fn != nil {
		if v, ok := x.lookupName(name, env.atBlock, env.st, true); ok {
			return v
		}
	}
	if !env.closed && x.fn != nil && !x.resolving[name] {
		// the variable is gone: a range variable of a loop that was rewritten, or
		// a temporary that was inlined (hints.go)
		fnName := shortName(x.fn)
		if x.inlined && x.parent != nil {
			fnName = ""
		}
		if sub := vanishedName(fnName, x.fn, name); sub != "" {
			if ex, err := parseSpec(sub); err == nil {
				if x.resolving == nil {
					x.resolving = map[string]bool{}
				}
				x.resolving[name] = true
				defer delete(x.resolving, name)
				x.enc.note("%s: contract name %q no longer exists; read as %s", x.name, name, sub)
				return x.eval(ex, env)
			}
		}
	}
	if !env.closed && x.inlined && x.parent != nil && !x.resolving[name] {
		// the caller's invariant names a caller variable that vanished (range variable
		// of a rewritten loop, inlined temporary): read it in the caller's frame
		for p := x.parent; p != nil; p = p.parent {
			if p.fn == nil || p.inlined {
				continue
			}
			if sub := vanishedName(shortName(p.fn), p.fn, name); sub != "" {
				if ex, err := parseSpec(sub); err == nil {
					if x.resolving == nil {
						x.resolving = map[string]bool{}
					}
					x.resolving[name] = true
					defer delete(x.resolving, name)
					x.enc.note("%s: contract name %q no longer exists in the caller; read as %s", x.name, name, sub)
					env2 := *env
					env2.atBlock = p.cur
					if v, ok := tryEvalIn(p, ex, &env2); ok {
						return v
					}
					// the loop the expression talks about lives in this helper
					return x.eval(ex, env)
				}
			}
		}
	}
	x.fail("unbound name %q in contract", name)
	return Val{}
}

func (x *Exec) constSort(t string) string {
	if t == "true" || t == "false" {
		return "Bool"
	}
	if sig, ok := x.enc.funSig(t); ok {
		return sig.ret
	}
	return "Int"
}

func (x *Exec) coerceNil(a, b Val) (Val, Val) {
	e := x.enc
	if a.Sort == "NIL" && b.Sort != "NIL" {
		a = Val{T: e.zeroSort(b.Sort, b.GT), Sort: b.Sort}
		if b.Sort == "Slice" {
			// nil slice test compares the ref
			return Val{T: "0", Sort: "Int"}, Val{T: fmt.Sprintf("(sref %s)", b.T), Sort: "Int"}
		}
	}
	if b.Sort == "NIL" && a.Sort != "NIL" {
		b2, a2 := x.coerceNil(b, a)
		return a2, b2
	}
	return a, b
}

func (x *Exec) evalBinary(n *SBinary, env *Env) Val {
	switch n.Op {
	case "&&", "||", "==>", "<==>":
		l := x.eval(n.L, env)
		r := x.eval(n.R, env)
		if l.Sort != "Bool" || r.Sort != "Bool" {
			x.fail("logical operator on non-boolean in %s", n)
		}
		switch n.Op {
		case "&&":
			return Val{T: and(l.T, r.T), Sort: "Bool"}
		case "||":
			return Val{T: or(l.T, r.T), Sort: "Bool"}
		case "==>":
			return Val{T: implies(l.T, r.T), Sort: "Bool"}
		default:
			return Val{T: fmt.Sprintf("(= %s %s)", l.T, r.T), Sort: "Bool"}
		}
	}
	l := x.eval(n.L, env)
	r := x.eval(n.R, env)
	l, r = x.coerceNil(l, r)
	arith := func(op string) Val {
		if l.Sort == "Real" || r.Sort == "Real" {
			lt, rt := l.T, r.T
			if l.Sort == "Int" {
				lt = fmt.Sprintf("(to_real %s)", lt)
			}
			if r.Sort == "Int" {
				rt = fmt.Sprintf("(to_real %s)", rt)
			}
			return Val{T: fmt.Sprintf("(%s %s %s)", op, lt, rt), Sort: "Real"}
		}
		return Val{T: fmt.Sprintf("(%s %s %s)", op, l.T, r.T), Sort: "Int", GT: l.GT}
	}
	switch n.Op {
	case "==", "!=":
		if l.Sort != r.Sort {
			x.fail("comparison of different sorts %s vs %s in %s", l.Sort, r.Sort, n)
		}
		t := fmt.Sprintf("(= %s %s)", l.T, r.T)
		if n.Op == "!=" {
			t = not(t)
		}
		return Val{T: t, Sort: "Bool"}
	case "<", "<=", ">", ">=":
		v := arith(n.Op)
		v.Sort = "Bool"
		v.GT = nil
		return v
	case "+", "-", "*":
		return arith(n.Op)
	case "/":
		if l.Sort == "Real" || r.Sort == "Real" {
			return arith("/")
		}
		return Val{T: fmt.Sprintf("(godiv %s %s)", l.T, r.T), Sort: "Int"}
	case "%":
		return Val{T: fmt.Sprintf("(gomod %s %s)", l.T, r.T), Sort: "Int"}
	case "&":
		return Val{T: fmt.Sprintf("(bitand %s %s)", l.T, r.T), Sort: "Int"}
	case "|":
		return Val{T: fmt.Sprintf("(bitor %s %s)", l.T, r.T), Sort: "Int"}
	}
	x.fail("operator %s", n.Op)
	return Val{}
}

// groundFacts assumes well-typedness facts (ranges, allocation frontier) for a
// ground spec term read from the heap in state st. Terms under a quantifier
// (mentioning a bound variable) are skipped.
func (x *Exec) groundFacts(v Val, st *State) Val {
	if v.GT == nil || strings.Contains(v.T, "!q") || x.noFacts {
		return v
	}
	e := x.enc
	brk := ""
	if _, ok := st.H["brk"]; ok || st == x.entry {
		brk = e.heapGet(st, "brk")
	}
	for _, f := range e.typeFacts(v.T, v.GT, brk, 2) {
		e.assume(x.guard, f)
	}
	return v
}

// selectField selects a named field from a struct value or through a pointer.
func (x *Exec) selectField(v Val, f string, st *State) Val {
	return x.groundFacts(x.selectField1(v, f, st), st)
}

func (x *Exec) selectField1(v Val, f string, st *State) Val {
	e := x.enc
	if v.Sort == "Slice" && f == "ref" {
		return Val{T: fmt.Sprintf("(sref %s)", v.T), Sort: "Int"}
	}
	if v.Sort == "Iface" {
		switch f {
		case "tag":
			return Val{T: fmt.Sprintf("(itag %s)", v.T), Sort: "Int"}
		case "val":
			return Val{T: fmt.Sprintf("(ival %s)", v.T), Sort: "Int"}
		}
	}
	if v.Sort == "Int" && v.GT != nil {
		if p, ok := v.GT.Underlying().(*types.Pointer); ok {
			key, cs := e.heapKeyFor(p.Elem())
			if stt, isStruct := p.Elem().Underlying().(*types.Struct); isStruct && e.structs[cs] == nil {
				// a struct type of another module (not a datatype): its fields are the
				// separate cells the executor uses (fieldcell!T!i), so a specification
				// can read m.Attributes.Flags of an rtnetlink message
				for i := 0; i < stt.NumFields(); i++ {
					if stt.Field(i).Name() != f {
						continue
					}
					fn := fmt.Sprintf("fieldcell!%s!%d", sanitize(cs), i)
					e.decl(fmt.Sprintf("(declare-fun %s (Int) Int)", fn))
					cell := fmt.Sprintf("(%s %s)", fn, v.T)
					ft := stt.Field(i).Type()
					if _, inner := ft.Underlying().(*types.Struct); inner {
						if _, fcs := e.heapKeyFor(ft); e.structs[fcs] == nil {
							return Val{T: cell, Sort: "Int", GT: types.NewPointer(ft)} // embedded opaque struct: stands for its address
						}
					}
					fkey, fs := e.heapKeyFor(ft)
					return Val{T: fmt.Sprintf("(select %s %s)", e.heapGet(st, fkey), cell), Sort: fs, GT: ft}
				}
				x.fail("no field %s in %s", f, cs)
			}
			h := e.heapGet(st, key)
			v = Val{T: fmt.Sprintf("(select %s %s)", h, v.T), Sort: cs, GT: p.Elem()}
		}
	}
	si := e.structs[v.Sort]
	if si == nil {
		x.fail("field %s of non-struct value (sort %s)", f, v.Sort)
	}
	for i, n := range si.FNames {
		if n == f {
			return Val{T: fmt.Sprintf("(%s %s)", si.Fields[i], v.T), Sort: si.FSorts[i], GT: si.FTypes[i]}
		}
	}
	// embedded struct promotion (one level)
	for i, ft := range si.FTypes {
		if st2, ok := ft.Underlying().(*types.Struct); ok {
			for j := 0; j < st2.NumFields(); j++ {
				if st2.Field(j).Name() == f {
					inner := Val{T: fmt.Sprintf("(%s %s)", si.Fields[i], v.T), Sort: si.FSorts[i], GT: ft}
					return x.selectField1(inner, f, st)
				}
			}
		}
	}
	x.fail("no field %s in %s", f, v.Sort)
	return Val{}
}

func (x *Exec) indexVal(v, i Val, st *State) Val {
	return x.groundFacts(x.indexVal1(v, i, st), st)
}

func (x *Exec) indexVal1(v, i Val, st *State) Val {
	e := x.enc
	if v.Sort == "Slice" {
		if v.GT == nil {
			x.fail("index of slice with unknown element type")
		}
		et := v.GT.Underlying().(*types.Slice).Elem()
		key, es := e.memKeyFor(et)
		return Val{T: fmt.Sprintf("(select (select %s (sref %s)) %s)", e.heapGet(st, key), v.T, i.T), Sort: es, GT: et}
	}
	if strings.HasPrefix(v.Sort, "(Array ") {
		// (Array K V): value sort is the remainder
		inner := v.Sort[len("(Array ") : len(v.Sort)-1]
		ks := firstSort(inner)
		vs := strings.TrimSpace(inner[len(ks):])
		var et types.Type
		if v.GT != nil {
			if a, ok := v.GT.Underlying().(*types.Array); ok {
				et = a.Elem()
			}
		}
		return Val{T: fmt.Sprintf("(select %s %s)", v.T, i.T), Sort: vs, GT: et}
	}
	if v.GT != nil {
		if mt, ok := v.GT.Underlying().(*types.Map); ok {
			_, val, _, vs := e.mapKeysFor(mt)
			return Val{T: fmt.Sprintf("(select (select %s %s) %s)", e.heapGet(st, val), v.T, i.T), Sort: vs, GT: mt.Elem()}
		}
	}
	x.fail("cannot index value of sort %s", v.Sort)
	return Val{}
}

func firstSort(s string) string {
	s = strings.TrimSpace(s)
	if !strings.HasPrefix(s, "(") {
		if i := strings.IndexByte(s, ' '); i >= 0 {
			return s[:i]
		}
		return s
	}
	d := 0
	for i, c := range s {
		if c == '(' {
			d++
		} else if c == ')' {
			d--
			if d == 0 {
				return s[:i+1]
			}
		}
	}
	return s
}

func (x *Exec) evalCall(n *SCall, env *Env) Val {
	e := x.enc
	arg := func(i int) Val { return x.eval(n.Args[i], env) }
	switch n.Fn {
	case "old":
		return x.eval(n.Args[0], env.with(env.old))
	case "len":
		v := arg(0)
		switch {
		case v.Sort == "Slice":
			return Val{T: fmt.Sprintf("(slen %s)", v.T), Sort: "Int"}
		case v.Sort == "Int":
			return Val{T: fmt.Sprintf("(str_len %s)", v.T), Sort: "Int"}
		}
		x.fail("len of sort %s", v.Sort)
	case "ite":
		c, a, b := arg(0), arg(1), arg(2)
		a, b = x.coerceNil(a, b)
		return Val{T: ite(c.T, a.T, b.T), Sort: a.Sort, GT: a.GT}
	case "forall", "exists":
		// forall(i, lo, hi, P)  or forall(v, "Sort", P)
		id, ok := n.Args[0].(*SIdent)
		if !ok {
			x.fail("quantifier variable must be an identifier")
		}
		quantCounter++
		vn := fmt.Sprintf("%s!q%d", id.Name, quantCounter)
		if len(n.Args) == 4 {
			lo, hi := arg(1), arg(2)
			body := x.eval(n.Args[3], env.bind(id.Name, Val{T: vn, Sort: "Int"}))
			rng := fmt.Sprintf("(and (<= %s %s) (< %s %s))", lo.T, vn, vn, hi.T)
			if n.Fn == "forall" {
				return Val{T: fmt.Sprintf("(forall ((%s Int)) (=> %s %s))", vn, rng, body.T), Sort: "Bool"}
			}
			return Val{T: fmt.Sprintf("(exists ((%s Int)) (and %s %s))", vn, rng, body.T), Sort: "Bool"}
		}
		if len(n.Args) == 3 {
			ss, ok := n.Args[1].(*SStr)
			if !ok {
				x.fail("quantifier sort must be a string")
			}
			srt, gt := x.resolveSort(ss.V)
			body := x.eval(n.Args[2], env.bind(id.Name, Val{T: vn, Sort: srt, GT: gt}))
			return Val{T: fmt.Sprintf("(%s ((%s %s)) %s)", n.Fn, vn, srt, body.T), Sort: "Bool"}
		}
		x.fail("bad quantifier arity")
	case "dyn":
		return Val{T: fmt.Sprintf("(itag %s)", arg(0).T), Sort: "Int"}
	case "tagOf":
		t := x.typeArg(n.Args[0])
		return Val{T: fmt.Sprint(e.tagOf(t)), Sort: "Int"}
	case "isType":
		t := x.typeArg(n.Args[1])
		return Val{T: fmt.Sprintf("(= (itag %s) %d)", arg(0).T, e.tagOf(t)), Sort: "Bool"}
	case "as":
		t := x.typeArg(n.Args[1])
		return x.unboxPayload(fmt.Sprintf("(ival %s)", arg(0).T), t)
	case "iface": // iface(v, "T"): the interface value holding v of dynamic type T
		t := x.typeArg(n.Args[1])
		v := arg(0)
		return Val{T: fmt.Sprintf("(mk-iface %d %s)", e.tagOf(t), x.boxPayload(v, t)), Sort: "Iface"}
	case "typed": // typed(term, "T"): attach a Go type to a value (for selectors)
		t := x.typeArg(n.Args[1])
		v := arg(0)
		v.GT = t
		return v
	case "star": // star(p): load through a pointer
		v := arg(0)
		if v.GT == nil {
			x.fail("star() of untyped value")
		}
		p, ok := v.GT.Underlying().(*types.Pointer)
		if !ok {
			x.fail("star() of non-pointer")
		}
		key, cs := e.heapKeyFor(p.Elem())
		return x.groundFacts(Val{T: fmt.Sprintf("(select %s %s)", e.heapGet(env.st, key), v.T), Sort: cs, GT: p.Elem()}, env.st)
	case "has": // has(m, k): key present in map
		m, k := arg(0), arg(1)
		mt, ok := m.GT.Underlying().(*types.Map)
		if !ok {
			x.fail("has() of non-map")
		}
		dom, _, _, _ := e.mapKeysFor(mt)
		return Val{T: fmt.Sprintf("(select (select %s %s) %s)", e.heapGet(env.st, dom), m.T, k.T), Sort: "Bool"}
	case "addr": // addr(v): the address of an address-taken local or captured variable
		id, ok := n.Args[0].(*SIdent)
		if !ok || x.fn == nil {
			x.fail("addr() needs a variable name")
		}
		if v, ok := env.binders["&"+id.Name]; ok {
			return v
		}
		if a, ok := x.alias[id.Name]; ok && !env.closed {
			id = &SIdent{Name: a}
		}
		for _, fv := range x.fn.FreeVars {
			if fv.Name() == id.Name {
				return x.materialize(x.val(fv))
			}
		}
		for _, b := range x.fn.Blocks {
			for _, in := range b.Instrs {
				if al, ok := in.(*ssa.Alloc); ok && al.Comment == id.Name {
					if v, ok := x.vals[al]; ok {
						return x.materialize(v)
					}
				}
			}
		}
		x.fail("addr(%s): no such address-taken variable", id.Name)
	case "fieldaddr": // fieldaddr(p, "f"): the address of field f of the struct p points to
		v := arg(0)
		fs, ok := n.Args[1].(*SStr)
		if !ok || v.GT == nil {
			x.fail("fieldaddr(pointer, \"field\")")
		}
		pt, ok := v.GT.Underlying().(*types.Pointer)
		if !ok {
			x.fail("fieldaddr of non-pointer")
		}
		key, cs := e.heapKeyFor(pt.Elem())
		si := e.structs[cs]
		if si == nil {
			x.fail("fieldaddr of non-struct")
		}
		for i, fn := range si.FNames {
			if fn == fs.V {
				l := &Loc{Key: key, Ref: v.T, RootS: cs, RootT: pt.Elem(), Path: []PathElem{e.fieldElem(cs, i)}}
				return x.materialize(Val{Sort: "Int", Loc: l, GT: types.NewPointer(si.FTypes[i])})
			}
		}
		x.fail("fieldaddr: no field %s", fs.V)
	case "visited": // visited(N): the ghost set of keys map-range loop N has already visited
		lit, ok := n.Args[0].(*SInt)
		if !ok || x.fn == nil {
			x.fail("visited() needs a loop ordinal")
		}
		for h, li := range x.loops {
			if fmt.Sprint(li.ordinal) != lit.V {
				continue
			}
			for _, in := range h.Instrs {
				if nx, ok := in.(*ssa.Next); ok {
					if rg, ok := nx.Iter.(*ssa.Range); ok {
						k := x.iterKey(rg)
						return Val{T: e.heapGet(env.st, k), Sort: e.heapSort[k]}
					}
				}
			}
		}
		x.fail("visited(%s): not a map-range loop", lit.V)
	case "rangemap": // rangemap(N): the map that map-range loop N iterates over
		lit, ok := n.Args[0].(*SInt)
		if !ok || x.fn == nil {
			x.fail("rangemap() needs a loop ordinal")
		}
		for h, li := range x.loops {
			if fmt.Sprint(li.ordinal) != lit.V {
				continue
			}
			for _, in := range h.Instrs {
				if nx, ok := in.(*ssa.Next); ok {
					if rg, ok := nx.Iter.(*ssa.Range); ok {
						return x.materialize(x.val(rg.X))
					}
				}
			}
		}
		x.fail("rangemap(%s): not a map-range loop", lit.V)
	case "rangekey": // rangekey(N): the key variable of map-range loop N
		lit, ok := n.Args[0].(*SInt)
		if !ok || x.fn == nil {
			x.fail("rangekey() needs a loop ordinal")
		}
		for h, li := range x.loops {
			if fmt.Sprint(li.ordinal) != lit.V {
				continue
			}
			for _, in := range h.Instrs {
				if nx, ok := in.(*ssa.Next); ok {
					if v, ok := x.vals[nx]; ok && len(v.Tup) == 3 {
						return v.Tup[1]
					}
				}
			}
		}
		x.fail("rangekey(%s): loop is not a range over a map (or not yet executed)", lit.V)
	case "ranged": // ranged(N): the (possibly unnamed) slice that range loop N iterates over
		lit, ok := n.Args[0].(*SInt)
		if !ok || x.fn == nil {
			x.fail("ranged() needs a loop ordinal")
		}
		for h, li := range x.loops {
			if fmt.Sprint(li.ordinal) != lit.V {
				continue
			}
			for _, in := range h.Instrs {
				if iff, ok := in.(*ssa.If); ok {
					if cmp, ok := iff.Cond.(*ssa.BinOp); ok {
						if call, ok := cmp.Y.(*ssa.Call); ok {
							if b, ok := call.Call.Value.(*ssa.Builtin); ok && b.Name() == "len" {
								return x.materialize(x.val(call.Call.Args[0]))
							}
						}
					}
				}
			}
		}
		x.fail("ranged(%s): loop is not a range over a slice", lit.V)
	case "arr": // arr(s): the backing array of a slice as an SMT array
		v := arg(0)
		if v.Sort != "Slice" || v.GT == nil {
			x.fail("arr() needs a typed slice")
		}
		et := v.GT.Underlying().(*types.Slice).Elem()
		key, es := e.memKeyFor(et)
		return Val{T: fmt.Sprintf("(select %s (sref %s))", e.heapGet(env.st, key), v.T), Sort: fmt.Sprintf("(Array Int %s)", es)}
	case "slice": // slice(ref,len) constructor
		return Val{T: fmt.Sprintf("(mk-slice %s %s)", arg(0).T, arg(1).T), Sort: "Slice"}
	case "fresh": // fresh(p): allocated by this call/activation
		v := arg(0)
		t := v.T
		if v.Sort == "Slice" {
			t = fmt.Sprintf("(sref %s)", v.T)
		} else if v.Sort == "Iface" {
			t = fmt.Sprintf("(ival %s)", v.T)
		}
		return Val{T: fmt.Sprintf("(>= %s %s)", t, e.heapGet(env.old, "brk")), Sort: "Bool"}
	case "errAs": // errAs(e, "T"): errors.As(e, &T) would succeed
		t := x.typeArg(n.Args[1])
		okf, _ := x.errAsFuncs(t)
		return Val{T: fmt.Sprintf("(%s %s)", okf, arg(0).T), Sort: "Bool"}
	case "errAsVal": // the value errors.As would store (as an interface value)
		t := x.typeArg(n.Args[1])
		_, vf := x.errAsFuncs(t)
		return Val{T: fmt.Sprintf("(%s %s)", vf, arg(0).T), Sort: "Iface"}
	case "global": // global("pkg.Var"): a package-level variable of any loaded package
		s, ok := n.Args[0].(*SStr)
		if !ok {
			x.fail("global() needs a string literal")
		}
		i := strings.LastIndex(s.V, ".")
		for _, sp := range e.prog.SSA.AllPackages() {
			if sp.Pkg.Name() == s.V[:i] || sp.Pkg.Path() == s.V[:i] {
				if g, ok := sp.Members[s.V[i+1:]].(*ssa.Global); ok {
					return x.globalVal(g)
				}
			}
		}
		x.fail("unknown global %s", s.V)
	case "real":
		return Val{T: fmt.Sprintf("(to_real %s)", arg(0).T), Sort: "Real"}
	case "isClosure": // isClosure(f, "pkg.(*T).M$1"): f is a closure of that function literal
		f := arg(0)
		nm, ok := n.Args[1].(*SStr)
		if !ok {
			x.fail("isClosure: second argument must be a string literal")
		}
		target := e.prog.funcs[nm.V]
		if target == nil {
			x.fail("isClosure: no function %s in the program", nm.V)
		}
		fid := x.val(target)
		e.decl("(declare-fun closureFn (Int) Int)")
		return Val{T: fmt.Sprintf("(= (closureFn %s) %s)", f.T, fid.T), Sort: "Bool"}
	case "isFunc": // isFunc(f, "pkg.Fn"): f is that (top-level) function itself
		f := arg(0)
		nm, ok := n.Args[1].(*SStr)
		if !ok {
			x.fail("isFunc: second argument must be a string literal")
		}
		target := e.prog.funcs[nm.V]
		if target == nil {
			x.fail("isFunc: no function %s in the program", nm.V)
		}
		return Val{T: fmt.Sprintf("(= %s %s)", f.T, x.val(target).T), Sort: "Bool"}
	case "boundMethod": // boundMethod(f, "pkg.(*T).M", recv): f is the method value recv.M
		f, recv := arg(0), arg(2)
		nm, ok := n.Args[1].(*SStr)
		if !ok {
			x.fail("boundMethod: second argument must be a string literal")
		}
		// the synthetic wrapper of a method value is named <pkg>.<Method>$bound
		fid := Val{T: "fn!" + sanitize(nm.V+"$bound"), Sort: "Int"}
		e.decl(fmt.Sprintf("(declare-const %s Int)", fid.T))
		e.decl(fmt.Sprintf("(assert (> %s 0))", fid.T))
		e.decl(fmt.Sprintf("(assert (= (fnIdent %s) %d))", fid.T, fnOrdinal(nm.V+"$bound")))
		e.decl("(declare-fun closureFn (Int) Int)")
		bf := "closureBind0!" + sanitize(recv.Sort)
		e.decl(fmt.Sprintf("(declare-fun %s (Int) %s)", bf, recv.Sort))
		return Val{T: fmt.Sprintf("(and (= (closureFn %s) %s) (= (%s %s) %s))", f.T, fid.T, bf, f.T, recv.T), Sort: "Bool"}
	case "smt": // smt("raw term", "Sort")
		return Val{T: n.Args[0].(*SStr).V, Sort: n.Args[1].(*SStr).V}
	}
	if m, ok := e.cs.Macros[n.Fn]; ok {
		if len(m.Params) != len(n.Args) {
			x.fail("macro %s expects %d arguments", n.Fn, len(m.Params))
		}
		if env.depth > 40 {
			x.fail("macro recursion too deep in %s", n.Fn)
		}
		ne := *env
		ne.depth++
		ne.bound = map[string]Val{}
		ne.binders = nil
		ne.closed = true
		ne.results = nil
		ne.resNames = nil
		ne.lits = map[string]string{}
		for i, p := range m.Params {
			ne.bound[p] = x.eval(n.Args[i], env)
			if lit, ok := n.Args[i].(*SStr); ok {
				ne.lits[p] = lit.V
			} else if id, ok := n.Args[i].(*SIdent); ok && env.lits != nil {
				if v, ok := env.lits[id.Name]; ok {
					ne.lits[p] = v
				}
			}
		}
		x.curLits = ne.lits
		defer func(saved map[string]string) { x.curLits = saved }(env.lits)
		return x.eval(m.Body, &ne)
	}
	if sig, ok := e.funSig(n.Fn); ok {
		if len(sig.args) != len(n.Args) {
			x.fail("%s expects %d arguments", n.Fn, len(sig.args))
		}
		var as []string
		for i := range n.Args {
			a := arg(i)
			if a.Sort == "NIL" {
				a = Val{T: e.zeroSort(sig.args[i], nil), Sort: sig.args[i]}
			}
			if a.Sort != sig.args[i] {
				if a.Sort == "Int" && sig.args[i] == "Real" {
					a.T = fmt.Sprintf("(to_real %s)", a.T)
				} else {
					x.fail("argument %d of %s has sort %s, want %s", i, n.Fn, a.Sort, sig.args[i])
				}
			}
			as = append(as, a.T)
		}
		if len(as) == 0 {
			return Val{T: n.Fn, Sort: sig.ret}
		}
		return Val{T: fmt.Sprintf("(%s %s)", n.Fn, strings.Join(as, " ")), Sort: sig.ret}
	}
	x.fail("unknown spec function %s", n.Fn)
	return Val{}
}

func (x *Exec) typeArg(a SExpr) types.Type {
	s, ok := a.(*SStr)
	if !ok {
		if id, isID := a.(*SIdent); isID && x.curLits != nil {
			if v, has := x.curLits[id.Name]; has {
				s, ok = &SStr{V: v}, true
			}
		}
	}
	if !ok {
		x.fail("type argument must be a string literal")
	}
	if s.V == "$T" {
		fn := x.typeArgFn
		if fn == nil {
			fn = x.fn
		}
		if fn == nil || len(fn.TypeArgs()) == 0 {
			x.fail("$T used outside a generic instantiation")
		}
		return fn.TypeArgs()[0]
	}
	t := x.enc.prog.lookupType(s.V)
	if t == nil {
		x.fail("unknown type %q", s.V)
	}
	return t
}

func (x *Exec) resolveSort(s string) (string, types.Type) {
	switch s {
	case "Int", "Bool", "Real", "Addr", "Pfx", "Slice", "Iface":
		return s, nil
	}
	if strings.HasPrefix(s, "(") {
		return s, nil
	}
	t := x.enc.prog.lookupType(s)
	if t == nil {
		x.fail("unknown sort/type %q", s)
	}
	return x.enc.sortOf(t), t
}

// tryEvalIn evaluates ex in exec p; ok is false if it does not bind there.
func tryEvalIn(p *Exec, ex SExpr, env *Env) (v Val, ok bool) {
	defer func() {
		if r := recover(); r != nil {
			if _, isU := r.(unsupported); isU {
				v, ok = Val{}, false
				return
			}
			panic(r)
		}
	}()
	return p.eval(ex, env), true
}
