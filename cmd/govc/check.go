package main

import (
	"os/exec"
	"crypto/sha256"
	"runtime/debug"
	"encoding/json"
	"fmt"
	"os"
	"path/filepath"
	"sort"
	"strings"
	"time"

	"golang.org/x/tools/go/ssa"
)

type CheckOpts struct {
	Prop     string
	Tier     string
	Root     string
	Verif    string
	Evidence string
	Seed     int
	Verbose  bool
	KeepSMT  bool
	OnlyFunc string
}

type funcReport struct {
	Name   string
	Err    error
	Obls   []*Obligation
	Notes  []string
	Assume []string
	Tagged bool
}

func hasTag(tags []string, t string) bool {
	for _, x := range tags {
		if x == t {
			return true
		}
	}
	return false
}

// contractMentions reports whether a contract carries the property tag anywhere.
func contractMentions(fc *FuncContract, prop string) bool {
	for _, c := range fc.Requires {
		if c.HasTag(prop) {
			return true
		}
	}
	for _, c := range fc.Ensures {
		if c.HasTag(prop) {
			return true
		}
	}
	for _, l := range fc.Loops {
		for _, c := range l.Invariants {
			if c.HasTag(prop) {
				return true
			}
		}
	}
	for _, at := range fc.Ats {
		for _, c := range at.Asserts {
			if c.HasTag(prop) {
				return true
			}
		}
	}
	for _, k := range []string{"safety", "frame", "props", "cancelable", "nonblocking", "refinetags", "guarded", "stablecapture"} {
		if v, ok := fc.Opts[k]; ok && hasTag(optTags(v), prop) {
			return true
		}
	}
	return false
}

// optTags extracts the tag list from an option value such as "m mu [C19,C20]".
func optTags(v string) []string {
	i, j := strings.Index(v, "["), strings.LastIndex(v, "]")
	if i < 0 || j < i {
		return splitList(v)
	}
	return splitList(v[i+1 : j])
}

func findSSA(p *Program, name string) []*ssa.Function {
	var out []*ssa.Function
	if fn, ok := p.funcs[name]; ok {
		if fn.TypeParams().Len() > 0 && len(fn.TypeArgs()) == 0 {
			// generic origin: all instantiations
			var ns []string
			for n, f := range p.funcs {
				if f.Origin() == fn {
					ns = append(ns, n)
				}
			}
			sort.Strings(ns)
			for _, n := range ns {
				out = append(out, p.funcs[n])
			}
			return out
		}
		return []*ssa.Function{fn}
	}
	return nil
}

func verifyFunction(p *Program, cs *Contracts, fc *FuncContract, fn *ssa.Function) *funcReport {
	enc := NewEnc(p, cs)
	name := shortName(fn)
	x := newExec(enc, fn, name, fc)
	rep := &funcReport{Name: name}
	rep.Err = x.run()
	rep.Obls = x.obls
	// cover: the precondition (with type facts) is satisfiable, and each return is reachable
	if rep.Err == nil {
		rep.Obls = append(rep.Obls, &Obligation{Name: name + "/cover/requires", Func: name, Kind: "cover", Label: "requires",
			Prefix: x.requiresPrefix, Guard: "true", Goal: "true", Cover: true, Enc: enc, Src: "requires are satisfiable"})
	}
	if rep.Err == nil && len(x.retGuards) > 0 {
		// vacuity guard behind the postconditions: what is assumed along the way
		// (callee postconditions, invariants, hooks) must leave some return reachable
		rep.Obls = append(rep.Obls, &Obligation{Name: name + "/cover/return", Func: name, Kind: "cover", Label: "return",
			Prefix: len(enc.body), Guard: "true", Goal: or(x.retGuards...), Cover: true, Enc: enc, Src: "some return site is reachable"})
	}
	if rep.Err == nil && os.Getenv("GOVC_DEADBLOCKS") != "" {
		// diagnostic: which blocks does the model consider unreachable (dead code,
		// or a contradiction among the assumed contracts that hides obligations)?
		for _, b := range fn.Blocks {
			r, ok := x.reach[b]
			if !ok || r == "true" {
				continue
			}
			pos := ""
			for _, in := range b.Instrs {
				if in.Pos().IsValid() {
					pos = x.pos(in.Pos())
					break
				}
			}
			rep.Obls = append(rep.Obls, &Obligation{Name: fmt.Sprintf("%s/cover/block-%d", name, b.Index), Func: name, Kind: "cover", Label: fmt.Sprintf("block-%d", b.Index),
				Prefix: len(enc.body), Guard: "true", Goal: r, Cover: true, Diag: true, Enc: enc, Src: "block reachable", Where: pos})
		}
	}
	rep.Obls = append(rep.Obls, disciplineObligations(fn, name, fc, enc)...)
	rep.Notes = enc.notes
	for a := range enc.assumptionsUsed {
		rep.Assume = append(rep.Assume, a)
	}
	sort.Strings(rep.Assume)
	return rep
}

func runCheck(o CheckOpts) (code int) {
	start := time.Now()
	defer func() {
		// The generator never fails on the tree the contracts were written
		// for (checked on every run of the unchanged tree); if it fails on a
		// changed tree, the obligations it used to discharge are not discharged.
		if r := recover(); r != nil {
			rp := writeReplay(o, "govc/internal-error", fmt.Sprintf("the VC generator failed on this tree: %v\n%s", r, debug.Stack()), nil)
			fmt.Printf("VIOLATION property=%s replay=%s obligation=govc/internal-error reason=%q no-failing-input-found\n", o.Prop, rp, fmt.Sprint(r))
			code = 1
		}
	}()
	if err := loadPrelude(o.Verif); err != nil {
		fmt.Fprintln(os.Stderr, "prelude:", err)
		return 2
	}
	loadHints(o.Verif)
	p, err := loadProgram(o.Root)
	if err != nil {
		fmt.Fprintln(os.Stderr, "cannot load repository:", err)
		return 2
	}
	cs, err := loadContracts(p, o.Verif)
	if err != nil {
		fmt.Fprintln(os.Stderr, "contracts:", err)
		return 2
	}
	known := loadKnownFindings(filepath.Join(o.Verif, "known_findings.txt"))
	var reports []*funcReport
	var names []string
	for _, k := range cs.Order {
		fc := cs.Funcs[k]
		if fc.Kind != "func" || fc.Trusted {
			continue
		}
		if _, tr := fc.Opts["trusted"]; tr {
			continue
		}
		if o.OnlyFunc != "" && !strings.Contains(k, o.OnlyFunc) {
			continue
		}
		if o.Prop != "all" && !contractMentions(fc, o.Prop) {
			continue
		}
		names = append(names, k)
	}
	var bindFailures []string
	for _, k := range names {
		fc := cs.Funcs[k]
		fns := findSSA(p, k)
		if len(fns) == 0 {
			if twin := mergedTwin(p, cs, k); twin != "" {
				// two function literals with word-for-word the same contract were merged
				// into one: the surviving literal is verified against that contract
				closureNotes = append(closureNotes, fmt.Sprintf("contract of %s: its literal is gone, but %s carries the identical contract and is verified (two literals merged into one)", k, twin))
				continue
			}
			bindFailures = append(bindFailures, fmt.Sprintf("%s: contract (%s) names a function that no longer exists", k, fc.Where))
			continue
		}
		for _, fn := range fns {
			reports = append(reports, verifyFunction(p, cs, fc, fn))
		}
	}
	// lemmas
	var lemmaObls []*Obligation
	for _, lm := range cs.Lemmas {
		if o.Prop != "all" && !hasTag(lm.Tags, o.Prop) {
			continue
		}
		enc := NewEnc(p, cs)
		x := newExec(enc, nil, "lemma", nil)
		x.st = &State{H: map[string]string{}}
		x.entry = x.st
		x.guard = "true"
		func() {
			defer func() {
				if r := recover(); r != nil {
					if u, ok := r.(unsupported); ok {
						bindFailures = append(bindFailures, fmt.Sprintf("lemma %s: %s", lm.Name, u.msg))
						return
					}
					panic(r)
				}
			}()
			env := &Env{x: x, st: x.st, old: x.st, bound: map[string]Val{}, closed: true}
			t := x.evalBool(lm.Expr, env, nil)
			lemmaObls = append(lemmaObls, &Obligation{Name: "lemma/" + lm.Name, Func: "lemma", Kind: "lemma", Label: lm.Name,
				Tags: lm.Tags, Prefix: len(enc.body), Guard: "true", Goal: t, Src: lm.Src, Where: lm.Where, Enc: enc})
		}()
	}
	// solve
	dir, _ := os.MkdirTemp("", "govc-"+o.Prop+"-")
	if !o.KeepSMT {
		defer os.RemoveAll(dir)
	}
	sv := &Solver{Dir: dir, TimeoutS: 20, Workers: 4}
	if o.Tier == "thorough" {
		sv.TimeoutS = 60
		sv.NeedTwo = true
	}
	var all []*Obligation
	for _, r := range reports {
		all = append(all, r.Obls...)
	}
	all = append(all, lemmaObls...)
	sv.solveAll(all)

	// verdicts
	ev := newEvidence(o)
	violations := 0
	var lines []string
	// An obligation counts for the property if it carries the tag, or if its
	// goal is assumed afterwards inside a function that carries the tag
	// (invariants, call-site assertions, callee preconditions, safety and frame
	// conditions): leaving one of those undischarged would make every later
	// proof in that function vacuous. Only untagged postconditions (aux
	// clauses, never assumed by callers) may fail without raising an alarm.
	relevant := func(ob *Obligation) bool {
		if o.Prop == "all" || hasTag(ob.Tags, o.Prop) {
			return true
		}
		switch ob.Kind {
		case "post", "lemma":
			return false
		case "safety":
			// Without `opt safety` a function makes no no-panic claim. What is
			// assumed after such a site (the operand was non-nil, the index in
			// range) holds on every execution that continues past it, so leaving
			// the obligation undischarged does not weaken the other proofs
			// (partial correctness).
			if len(ob.Tags) == 0 {
				return false
			}
		case "pre":
			if len(ob.Tags) == 0 && strings.HasSuffix(ob.Label, ".UNREACHABLE") {
				return false // a call to a function that never returns (panicf): as for safety
			}
		}
		return true
	}
	for _, bf := range bindFailures {
		violations++
		rp := writeReplay(o, "bind", bf, nil)
		lines = append(lines, fmt.Sprintf("VIOLATION property=%s replay=%s obligation=bind reason=%q no-failing-input-found", o.Prop, rp, bf))
	}
	for _, r := range reports {
		ev.Functions = append(ev.Functions, r.Name)
		for _, a := range r.Assume {
			ev.addAssumption(a)
		}
		for _, n := range r.Notes {
			ev.addNote(n)
		}
		if r.Err != nil {
			violations++
			rp := writeReplay(o, r.Name+"/subset", r.Err.Error(), nil)
			l := fmt.Sprintf("VIOLATION property=%s replay=%s obligation=%s/subset reason=%q", o.Prop, rp, r.Name, r.Err.Error())
			// the contract no longer fits the function: run the function's scenario
			// adapter (if any) to see whether the real code misbehaves
			confirmed := false
			if adapterFor(o.Verif, r.Name) != "" {
				pseudo := &Obligation{Name: r.Name + "/subset", Func: r.Name, Kind: "subset", Label: "subset"}
				confirmed = runAdapter(o, pseudo, map[string]string{}, rp)
			}
			if !confirmed {
				l += " no-failing-input-found"
			}
			lines = append(lines, l)
			continue
		}
	}
	// A function whose queries every solver rejects (an ill-sorted VC: the code
	// no longer has the types the contract was written against) is reported
	// once, as a contract that no longer binds, not once per obligation.
	illSorted := map[string]string{}
	for _, ob := range all {
		res := ob.Result
		if ob.Cover || res == nil || len(res.All) == 0 || res.Status == "unsat" || res.Status == "sat" {
			continue
		}
		allErr := true
		for _, st := range res.All {
			if st != "error" && st != "cancelled" {
				allErr = false
			}
		}
		if allErr && res.Output != "" && illSorted[ob.Func] == "" {
			illSorted[ob.Func] = firstLines(res.Output, 2)
		}
	}
	reportedIll := map[string]bool{}
	for _, ob := range all {
		res := ob.Result
		if msg, bad := illSorted[ob.Func]; bad && !ob.Cover && relevant(ob) && res.Status != "unsat" {
			if !reportedIll[ob.Func] {
				reportedIll[ob.Func] = true
				violations++
				pseudo := &Obligation{Name: ob.Func + "/subset", Func: ob.Func, Kind: "subset", Label: "subset"}
				rp := writeReplay(o, pseudo.Name, "the verification conditions of this function are ill-sorted (the contract no longer types against the code): "+msg, nil)
				l := fmt.Sprintf("VIOLATION property=%s replay=%s obligation=%s reason=%q", o.Prop, rp, pseudo.Name, "contract no longer types against the code: "+msg)
				confirmed := false
				if adapterFor(o.Verif, ob.Func) != "" {
					confirmed = runAdapter(o, pseudo, map[string]string{}, rp)
				}
				if !confirmed {
					l += " no-failing-input-found"
				}
				lines = append(lines, l)
			}
			ev.Obligations++
			continue
		}
		if ob.Cover && ob.Diag {
			if res.Status == "unsat" {
				lines = append(lines, fmt.Sprintf("DEADBLOCK %s at %s", ob.Name, ob.Where))
			}
			continue
		}
		if ob.Cover {
			ev.Covers++
			if res.Status == "sat" {
				ev.CoversSat++
			} else if res.Status != "unsat" {
				ev.CoversUnknown++ // quantified axioms: the solver cannot certify sat, but found no contradiction
			} else {
				// a contradictory precondition is a broken check, not a verdict
				violations++
				rp := writeReplay(o, ob.Name, "precondition/invariant unsatisfiable (vacuous contract): "+res.Status, ob)
				lines = append(lines, fmt.Sprintf("VIOLATION property=%s replay=%s obligation=%s reason=vacuous-contract no-failing-input-found", o.Prop, rp, ob.Name))
			}
			continue
		}
		if !relevant(ob) {
			ev.OtherObligations++
			if res.Status != "unsat" && o.Verbose {
				fmt.Printf("NOTE: untagged/other obligation %s not discharged (%s)\n", ob.Name, res.Status)
			}
			continue
		}
		ev.Obligations++
		ev.bySolver(res)
		if len(ev.Samples) < 6 {
			ev.Samples = append(ev.Samples, map[string]any{"obligation": ob.Name, "clause": ob.Src, "where": ob.Where,
				"status": res.Status, "solver": res.Solver, "smt_digest": res.Digest, "seconds": res.Seconds})
		}
		ok := res.Status == "unsat"
		if ok {
			ev.Discharged++
			if res.Single {
				ev.SingleBackend = append(ev.SingleBackend, ob.Name+" ("+res.Solver+")")
			}
			continue
		}
		// known finding?
		if kf := known.match(o.Prop, ob.Name); kf != nil {
			ev.KnownFindings = append(ev.KnownFindings, kf.Raw)
			lines = append(lines, fmt.Sprintf("KNOWN-FINDING: property=%s %s", o.Prop, kf.What))
			ev.Obligations--
			continue
		}
		violations++
		reason := res.Status
		confirmed := false
		var rp string
		if res.Status == "sat" || adapterFor(o.Verif, ob.Func) != "" {
			rp, confirmed = replayModel(o, ob)
		} else {
			rp = writeReplay(o, ob.Name, "solver answered "+res.Status+" "+fmt.Sprint(res.All)+"\n"+res.Output, ob)
		}
		l := fmt.Sprintf("VIOLATION property=%s replay=%s obligation=%s clause=%q status=%s", o.Prop, rp, ob.Name, ob.Src, reason)
		if !confirmed {
			l += " no-failing-input-found"
		}
		lines = append(lines, l)
	}
	// Thorough tier, in addition to the deductive obligations: every replay
	// adapter of a function under contract is run on this tree with its whole
	// scenario list and its oracle taken from the property text. This is a
	// BOUNDED cross-check of the contracts themselves (a contract that encodes a
	// wrong expectation would agree with wrong code); it is labelled bounded in
	// the evidence and never counted as proved.
	if o.Tier == "thorough" {
		// the axioms the proofs lean on: inductive lemma files (deductive) and
		// sampling of the assumed netip/duration/library facts against the real
		// library (bounded)
		if out, err := exec.Command("sh", filepath.Join(o.Verif, "tools", "lemmas.sh")).CombinedOutput(); err != nil {
			violations++
			rp := writeReplay(o, "prelude/lemmas", "a lemma that justifies a prelude axiom is not discharged\n"+string(out), nil)
			lines = append(lines, fmt.Sprintf("VIOLATION property=%s replay=%s obligation=prelude/lemmas reason=%q no-failing-input-found", o.Prop, rp, "lemma file not discharged"))
		} else {
			for _, l := range strings.Split(strings.TrimSpace(string(out)), "\n") {
				ev.addNote("prelude lemma: " + l)
			}
		}
		cmd := exec.Command("go", "test", "-count=1", "./conformance")
		cmd.Dir = o.Verif
		cmd.Env = append(os.Environ(), "GOFLAGS=-mod=vendor", "GOPROXY=off", "GOSUMDB=off", "GOTOOLCHAIN=local")
		if out, err := cmd.CombinedOutput(); err != nil {
			violations++
			rp := writeReplay(o, "prelude/conformance", "an assumed axiom or library contract disagrees with the real library on a sampled input\n"+string(out), nil)
			lines = append(lines, fmt.Sprintf("VIOLATION property=%s replay=%s obligation=prelude/conformance reason=%q", o.Prop, rp, "assumed axiom fails on a sampled input"))
		} else {
			ev.BoundedRuns = append(ev.BoundedRuns, "bounded: /verif/conformance samples every netip/duration axiom of the prelude and the arithmetic library contracts against the real library (20000 pseudo-random samples per group plus boundary values): no disagreement")
		}
		seenAd := map[string]bool{}
		for _, r := range reports {
			ad := adapterFor(o.Verif, r.Name)
			if ad == "" {
				continue
			}
			b, _ := os.ReadFile(ad)
			sum := fmt.Sprintf("%x", sha256.Sum256(b))
			if seenAd[sum] {
				continue
			}
			seenAd[sum] = true
			ok, out := runAdapterRaw(o.Verif, o.Root, r.Name, r.Name+"/bounded-crosscheck", "", "thorough", map[string]string{})
			ev.BoundedRuns = append(ev.BoundedRuns, fmt.Sprintf("bounded: scenario list of replay/adapters/%s on the real code (%s)", filepath.Base(ad), map[bool]string{true: "FAILED", false: "no failure"}[ok]))
			if ok {
				violations++
				ob := &Obligation{Name: r.Name + "/bounded-crosscheck", Func: r.Name, Kind: "bounded", Label: "bounded-crosscheck"}
				rp := writeReplay(o, ob.Name, "the function's scenario list (oracle from the property text) fails on this tree although every deductive obligation was discharged: the contract or an assumption is wrong\n"+out, nil)
				lines = append(lines, fmt.Sprintf("VIOLATION property=%s replay=%s obligation=%s reason=%q", o.Prop, rp, ob.Name, "bounded scenario list fails on the real code"))
			}
		}
	}
	ev.Violations = violations
	ev.Wall = time.Since(start).Seconds()
	if err := ev.write(o.Evidence); err != nil {
		fmt.Fprintln(os.Stderr, "evidence:", err)
	}
	sort.Strings(lines)
	for _, l := range lines {
		fmt.Println(l)
	}
	fmt.Printf("govc: property=%s tier=%s functions=%d obligations=%d discharged=%d covers=%d/%d other=%d violations=%d wall=%.1fs\n",
		o.Prop, o.Tier, len(reports), ev.Obligations, ev.Discharged, ev.CoversSat, ev.Covers, ev.OtherObligations, violations, ev.Wall)
	nerr, firstErr := 0, ""
	for _, ob := range all {
		if ob.Result != nil && ob.Result.Output != "" {
			nerr++
			if firstErr == "" {
				firstErr = ob.Name + ": " + ob.Result.Output
			}
		}
	}
	if nerr > 0 {
		fmt.Printf("govc: note: %d obligations had a solver configuration reject the query (another configuration decided them); first: %s\n", nerr, firstLines(firstErr, 3))
	}
	if o.Verbose {
		for _, ob := range all {
			fmt.Printf("  %-9s %-8s %6.2fs %s  [%s]\n", ob.Result.Status, ob.Result.Solver, ob.Result.Seconds, ob.Name, strings.Join(ob.Tags, ","))
		}
		for _, r := range reports {
			for _, n := range r.Notes {
				fmt.Println("  NOTE:", n)
			}
		}
		for _, n := range closureNotes {
			fmt.Println("  NOTE:", n)
		}
	}
	if ev.Obligations == 0 && violations == 0 {
		fmt.Printf("VIOLATION property=%s replay=none reason=no-obligations-generated no-failing-input-found\n", o.Prop)
		return 1
	}
	if violations > 0 {
		return 1
	}
	return 0
}

// ---------------------------------------------------------------------------
// evidence

type Evidence struct {
	opts             CheckOpts
	SingleBackend    []string
	BoundedRuns      []string
	Functions        []string
	Obligations      int
	Discharged       int
	OtherObligations int
	Covers, CoversSat, CoversUnknown int
	BySolver         map[string]int
	SolverSeconds    float64
	Samples          []any
	Assumptions      []string
	Notes            []string
	KnownFindings    []string
	Violations       int
	Wall             float64
}

func newEvidence(o CheckOpts) *Evidence {
	return &Evidence{opts: o, BySolver: map[string]int{}}
}

func (ev *Evidence) addAssumption(a string) {
	for _, x := range ev.Assumptions {
		if x == a {
			return
		}
	}
	ev.Assumptions = append(ev.Assumptions, a)
}

func (ev *Evidence) addNote(a string) {
	for _, x := range ev.Notes {
		if x == a {
			return
		}
	}
	ev.Notes = append(ev.Notes, a)
}

func (ev *Evidence) bySolver(r *SolveResult) {
	if r.Status == "unsat" {
		ev.BySolver[r.Solver]++
	}
	ev.SolverSeconds += r.Seconds
}

func (ev *Evidence) write(path string) error {
	if path == "" {
		return nil
	}
	sort.Strings(ev.Functions)
	extra := loadPropNotes(ev.opts.Verif, ev.opts.Prop)
	cov := map[string]any{
		"obligations":             ev.Obligations,
		"discharged":              ev.Discharged,
		"checker_cmd":             fmt.Sprintf("bin/govc -prop %s -tier %s -root %s (VCs from go/ssa of the working tree; solvers z3 4.8.12, z3-new 5.1.0, cvc5 1.0 raced per obligation)", ev.opts.Prop, ev.opts.Tier, ev.opts.Root),
		"trusted_base":            append([]string{"go/types + go/ssa (x/tools v0.29.0) front end", "govc SSA->SMT translator (/verif/cmd/govc)", "SMT solvers z3 4.8.12 / z3 5.1.0 / cvc5 1.0", "spec macros in /verif/spec (transcribed from the property statements)", "assumed dependency contracts in /verif/lib"}, extra.TrustedBase...),
		"functions_under_contract": ev.Functions,
		"discharged_by_backend":   ev.BySolver,
		"solver_seconds":          ev.SolverSeconds,
		"samples":                 ev.Samples,
		"covers":                  ev.Covers,
		"covers_sat":              ev.CoversSat,
		"covers_not_refuted":      ev.CoversUnknown,
		"untagged_obligations_not_counted": ev.OtherObligations,
		"known_findings":          ev.KnownFindings,
		"discharged_by_one_solver_binary_only": ev.SingleBackend,
		"not_decided":             extra.NotDecided,
		"bounded":                 append(append([]string{}, extra.Bounded...), ev.BoundedRuns...),
		"notes":                   ev.Notes,
	}
	out := map[string]any{
		"property_id": ev.opts.Prop,
		"tier":        ev.opts.Tier,
		"seed":        ev.opts.Seed,
		"level":       "proof",
		"coverage":    cov,
		"assumptions": append(ev.Assumptions, extra.Assumptions...),
		"wall_s":      ev.Wall,
		"violations":  ev.Violations,
	}
	b, _ := json.MarshalIndent(out, "", " ")
	os.MkdirAll(filepath.Dir(path), 0o755)
	return os.WriteFile(path, b, 0o644)
}

type propNotes struct {
	NotDecided  []string `json:"not_decided"`
	Bounded     []string `json:"bounded"`
	Assumptions []string `json:"assumptions"`
	TrustedBase []string `json:"trusted_base"`
}

func loadPropNotes(verif, prop string) propNotes {
	var all map[string]propNotes
	b, err := os.ReadFile(filepath.Join(verif, "spec", "notes.json"))
	if err != nil {
		return propNotes{}
	}
	if json.Unmarshal(b, &all) != nil {
		return propNotes{}
	}
	return all[prop]
}

// ---------------------------------------------------------------------------
// known findings

type knownFinding struct {
	Prop, Obligation, What, Raw string
}
type knownFindings struct{ items []knownFinding }

func loadKnownFindings(path string) *knownFindings {
	kf := &knownFindings{}
	b, err := os.ReadFile(path)
	if err != nil {
		return kf
	}
	for _, l := range strings.Split(string(b), "\n") {
		l = strings.TrimSpace(l)
		if !strings.HasPrefix(l, "finding:") {
			continue
		}
		f := knownFinding{Raw: l}
		for _, part := range strings.Fields(l) {
			if strings.HasPrefix(part, "property=") {
				f.Prop = part[len("property="):]
			}
			if strings.HasPrefix(part, "obligation=") {
				f.Obligation = part[len("obligation="):]
			}
		}
		if i := strings.Index(l, "what="); i >= 0 {
			f.What = strings.Trim(l[i+5:], `"`)
		}
		kf.items = append(kf.items, f)
	}
	return kf
}

func (k *knownFindings) match(prop, obl string) *knownFinding {
	for i := range k.items {
		if k.items[i].Prop == prop && k.items[i].Obligation == obl {
			return &k.items[i]
		}
	}
	return nil
}

// ---------------------------------------------------------------------------
// replay files

func writeReplay(o CheckOpts, obl, reason string, ob *Obligation) string {
	dir := filepath.Join(o.Verif, "replay", o.Prop)
	os.MkdirAll(dir, 0o755)
	path := filepath.Join(dir, sanitize(obl)+".json")
	m := map[string]any{"property": o.Prop, "obligation": obl, "reason": reason}
	if ob != nil {
		m["clause"] = ob.Src
		m["where"] = ob.Where
		if ob.Result != nil {
			m["solver_status"] = ob.Result.Status
			m["solver_all"] = ob.Result.All
			m["solver_output"] = firstLines(ob.Result.Model+ob.Result.Output, 60)
			m["smt_digest"] = ob.Result.Digest
		}
		// keep the query next to the replay file
		q := ob.queryText(false)
		os.WriteFile(strings.TrimSuffix(path, ".json")+".smt2", []byte(q), 0o644)
	}
	b, _ := json.MarshalIndent(m, "", " ")
	os.WriteFile(path, b, 0o644)
	return path
}

// contractBody: the raw clause lines of a contract (everything indented under
// its `//@ func` line).
func contractBody(p *Program, fc *FuncContract) string {
	i := strings.LastIndex(fc.Where, ":")
	if i < 0 {
		return ""
	}
	file, lineS := fc.Where[:i], fc.Where[i+1:]
	var line int
	fmt.Sscanf(lineS, "%d", &line)
	for k, lines := range p.ContractFiles {
		if !strings.HasSuffix(k, file) || !strings.Contains(k, fc.Pkg+"|") {
			continue
		}
		var out []string
		for j := line; j < len(lines); j++ { // lines[line] is the line after the header (1-based Where)
			l := lines[j]
			if !strings.HasPrefix(l, "//@   ") {
				break
			}
			out = append(out, strings.TrimSpace(l))
		}
		return strings.Join(out, "\n")
	}
	return ""
}

// mergedTwin: name is a function literal F$..$N whose function is gone; if a
// sibling literal of the same enclosing function exists, is under contract, and
// its contract is word for word the same, return the sibling's name.
func mergedTwin(p *Program, cs *Contracts, name string) string {
	i := strings.Index(name, "$")
	if i < 0 {
		return ""
	}
	fc := cs.Funcs[name]
	body := contractBody(p, fc)
	if body == "" {
		return ""
	}
	top := name[:i]
	var ks []string
	for k := range cs.Funcs {
		ks = append(ks, k)
	}
	sort.Strings(ks)
	for _, k := range ks {
		if k == name || !strings.HasPrefix(k, top+"$") {
			continue
		}
		if _, ok := p.funcs[k]; !ok {
			continue
		}
		if contractBody(p, cs.Funcs[k]) == body {
			return k
		}
	}
	return ""
}
