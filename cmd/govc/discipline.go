package main

import (
	"fmt"
	"go/token"
	"strings"

	"golang.org/x/tools/go/ssa"
)

// disciplineObligations implements the syntactic (ssa-dataflow) part of the
// blocking discipline for functions marked `opt cancelable [TAGS]`: every
// instruction that can block is either a receive from some context's Done()
// channel, or a blocking select one of whose cases is such a receive.
// State-dependent parts (cancel before Wait) are ordinary SMT obligations.
func disciplineObligations(fn *ssa.Function, name string, fc *FuncContract, enc *Enc) []*Obligation {
	v, ok := fc.Opts["cancelable"]
	nb, okNB := fc.Opts["nonblocking"]
	if !ok && !okNB {
		return nil
	}
	tags := splitList(strings.Trim(v, "[]"))
	if okNB {
		tags = splitList(strings.Trim(nb, "[]"))
	}
	var out []*Obligation
	isDone := func(ch ssa.Value) bool {
		c, ok := ch.(*ssa.Call)
		return ok && c.Call.IsInvoke() && c.Call.Method.Name() == "Done"
	}
	add := func(label string, okk bool, src string, pos token.Pos) {
		st := "unsat"
		goal := "true"
		if !okk {
			st = "sat"
			goal = "false"
		}
		p := fn.Prog.Fset.Position(pos)
		n := 0
		for _, o := range out {
			if o.Label == label {
				n++
			}
		}
		site := ""
		if n > 0 {
			site = fmt.Sprintf("@%d", n+1)
		}
		out = append(out, &Obligation{Name: fmt.Sprintf("%s/discipline/%s%s", name, label, site), Func: name, Kind: "discipline",
			Label: label, Tags: tags, Goal: goal, Guard: "true", Enc: enc, Src: src,
			Where:  fmt.Sprintf("%s:%d", shortPath(p.Filename), p.Line),
			Result: &SolveResult{Status: st, Solver: "ssa-dataflow", All: map[string]string{"ssa-dataflow": st}}})
	}
	if okNB {
		// `opt nonblocking`: no channel operation of the function may block
		for _, b := range fn.Blocks {
			for _, in := range b.Instrs {
				switch in := in.(type) {
				case *ssa.UnOp:
					if in.Op == token.ARROW {
						add("no-blocking-recv", false, "blocking receive in a function that must never block", in.Pos())
					}
				case *ssa.Send:
					add("no-blocking-send", false, "blocking send in a function that must never block (a full subscriber buffer would stall it)", in.Pos())
				case *ssa.Select:
					add("select-has-default", !in.Blocking, "select must have a default case so that a full buffer drops the event instead of blocking", in.Pos())
				case ssa.CallInstruction:
					if sc := in.Common().StaticCallee(); sc != nil && (sc.String() == "time.Sleep" || strings.HasSuffix(sc.String(), ".Wait")) {
						add("no-wait", false, "waiting call in a function that must never block", in.Pos())
					}
				}
			}
		}
		if len(out) == 0 {
			add("no-channel-ops", true, "function has no channel operation", fn.Pos())
		}
		return out
	}
	for _, b := range fn.Blocks {
		for _, in := range b.Instrs {
			switch in := in.(type) {
			case *ssa.UnOp:
				if in.Op == token.ARROW {
					add("recv-cancelable", isDone(in.X), "blocking receive must be from a context's Done() channel (or inside a select with one)", in.Pos())
				}
			case *ssa.Send:
				add("send-cancelable", false, "blocking send outside a select with a <-ctx.Done() case: cancellation cannot interrupt it", in.Pos())
			case *ssa.Select:
				if !in.Blocking {
					continue
				}
				has := false
				for _, s := range in.States {
					if s.Dir == 2 /* types.RecvOnly */ && isDone(s.Chan) {
						has = true
					}
				}
				add("select-cancelable", has, "blocking select must contain a <-ctx.Done() case", in.Pos())
			case ssa.CallInstruction:
				if sc := in.Common().StaticCallee(); sc != nil && sc.String() == "time.Sleep" {
					add("sleep", false, "time.Sleep cannot be interrupted by cancellation", in.Pos())
				}
			}
		}
	}
	if len(out) == 0 {
		add("no-blocking", true, "function has no blocking instruction", fn.Pos())
	}
	return out
}
