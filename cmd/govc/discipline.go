package main

import (
	"sort"
	"fmt"
	"go/token"
	"strings"

	"golang.org/x/tools/go/ssa"
)

// disciplineObligations implements the syntactic (ssa-dataflow) part of the
// blocking discipline for functions marked `opt cancelable [TAGS]`: every
// instruction that can block is either a receive from some context's Done()
// channel, or a blocking select one of whose cases is such a receive.
// State-dependent parts (cancel before Wait) are ordinary SMT obligations.
func disciplineObligations(fn *ssa.Function, name string, fc *FuncContract, enc *Enc) []*Obligation {
	v, ok := fc.Opts["cancelable"]
	nb, okNB := fc.Opts["nonblocking"]
	sc, okSC := fc.Opts["stablecapture"]
	ex, okEX := fc.Opts["exhaustive"]
	nbk, okNBK := fc.Opts["nobreak"]
	ol, okOL := fc.Opts["onelock"]
	if !ok && !okNB && !okSC && !okEX && !okNBK && !okOL {
		return nil
	}
	tags := splitList(strings.Trim(v, "[]"))
	if okNB {
		tags = splitList(strings.Trim(nb, "[]"))
	}
	var out []*Obligation
	if okEX || okNBK {
		out = append(out, loopExitObligations(fn, name, enc, okEX, optTags(ex+" "+nbk))...)
	}
	if okOL {
		// `opt onelock`: the function takes a mutex at most once, so everything it
		// reads and writes under the lock belongs to one critical section (a value
		// read in one section and used in a later one is a check-then-act race)
		n := 0
		var pos token.Pos
		for _, b := range fn.Blocks {
			for _, in := range b.Instrs {
				ci, isCall := in.(ssa.CallInstruction)
				if !isCall {
					continue
				}
				if f := ci.Common().StaticCallee(); f != nil {
					switch f.String() {
					case "(*sync.Mutex).Lock", "(*sync.RWMutex).Lock", "(*sync.RWMutex).RLock":
						n++
						if n > 1 {
							pos = in.Pos()
						}
					}
				}
			}
		}
		if !pos.IsValid() {
			pos = fn.Pos()
		}
		st, goal := "unsat", "true"
		if n > 1 {
			st, goal = "sat", "false"
		}
		p := fn.Prog.Fset.Position(pos)
		out = append(out, &Obligation{Name: name + "/discipline/one-critical-section", Func: name, Kind: "discipline",
			Label: "one-critical-section", Tags: optTags(ol), Goal: goal, Guard: "true", Enc: enc,
			Src:    "the mutex is taken at most once: one critical section, no check-then-act across sections",
			Where:  fmt.Sprintf("%s:%d", shortPath(p.Filename), p.Line),
			Result: &SolveResult{Status: st, Solver: "ssa-dataflow", All: map[string]string{"ssa-dataflow": st}}})
	}
	if (okEX || okNBK || okOL) && !ok && !okNB && !okSC {
		return out
	}
	isDone := func(ch ssa.Value) bool {
		c, ok := ch.(*ssa.Call)
		return ok && c.Call.IsInvoke() && c.Call.Method.Name() == "Done"
	}
	add := func(label string, okk bool, src string, pos token.Pos) {
		st := "unsat"
		goal := "true"
		if !okk {
			st = "sat"
			goal = "false"
		}
		p := fn.Prog.Fset.Position(pos)
		n := 0
		for _, o := range out {
			if o.Label == label {
				n++
			}
		}
		site := ""
		if n > 0 {
			site = fmt.Sprintf("@%d", n+1)
		}
		out = append(out, &Obligation{Name: fmt.Sprintf("%s/discipline/%s%s", name, label, site), Func: name, Kind: "discipline",
			Label: label, Tags: tags, Goal: goal, Guard: "true", Enc: enc, Src: src,
			Where:  fmt.Sprintf("%s:%d", shortPath(p.Filename), p.Line),
			Result: &SolveResult{Status: st, Solver: "ssa-dataflow", All: map[string]string{"ssa-dataflow": st}}})
	}
	if okSC {
		// `opt stablecapture`: a frame condition on the cells a closure
		// captures by reference. After a closure has been created, the
		// enclosing function must not assign a captured variable again while
		// that same cell is live (re-executing the variable's declaration
		// yields a fresh cell): the closure runs later, on another goroutine,
		// and would otherwise observe a value it was not created for.
		saved := tags
		tags = splitList(strings.Trim(sc, "[]"))
		n := 0
		for _, b := range fn.Blocks {
			for i, in := range b.Instrs {
				mc, isMC := in.(*ssa.MakeClosure)
				if !isMC {
					continue
				}
				for bi, bind := range mc.Bindings {
					al, isAl := bind.(*ssa.Alloc)
					if !isAl {
						continue
					}
					n++
					st := storeAfterCapture(b, i, al)
					nm := al.Comment
					if fv := mc.Fn.(*ssa.Function).FreeVars; bi < len(fv) {
						nm = fv[bi].Name()
					}
					pos := mc.Pos()
					src := fmt.Sprintf("captured variable %s of %s is not assigned again after the closure is created", nm, mc.Fn.Name())
					if st != nil {
						pos = st.Pos()
						src += fmt.Sprintf(" (assigned at %s)", shortPath(fn.Prog.Fset.Position(st.Pos()).String()))
					}
					add("capture-stable."+nm, st == nil, src, pos)
				}
			}
		}
		if n == 0 {
			add("capture-stable.none", true, "function creates no closure capturing a variable by reference", fn.Pos())
		}
		tags = saved
		if !ok && !okNB {
			return out
		}
	}
	if okNB {
		// `opt nonblocking`: no channel operation of the function may block
		for _, b := range blocksWithHelpers(fn, enc) {
			for _, in := range b.Instrs {
				switch in := in.(type) {
				case *ssa.UnOp:
					if in.Op == token.ARROW {
						add("no-blocking-recv", false, "blocking receive in a function that must never block", in.Pos())
					}
				case *ssa.Send:
					add("no-blocking-send", false, "blocking send in a function that must never block (a full subscriber buffer would stall it)", in.Pos())
				case *ssa.Select:
					add("select-has-default", !in.Blocking, "select must have a default case so that a full buffer drops the event instead of blocking", in.Pos())
				case ssa.CallInstruction:
					if sc := in.Common().StaticCallee(); sc != nil && (sc.String() == "time.Sleep" || strings.HasSuffix(sc.String(), ".Wait")) {
						add("no-wait", false, "waiting call in a function that must never block", in.Pos())
					}
				}
			}
		}
		if !hasKind(out, "nonblocking") {
			add("no-channel-ops", true, "function has no channel operation", fn.Pos())
		}
		return out
	}
	for _, b := range blocksWithHelpers(fn, enc) {
		for _, in := range b.Instrs {
			switch in := in.(type) {
			case *ssa.UnOp:
				if in.Op == token.ARROW {
					add("recv-cancelable", isDone(in.X), "blocking receive must be from a context's Done() channel (or inside a select with one)", in.Pos())
				}
			case *ssa.Send:
				add("send-cancelable", false, "blocking send outside a select with a <-ctx.Done() case: cancellation cannot interrupt it", in.Pos())
			case *ssa.Select:
				if !in.Blocking {
					continue
				}
				has := false
				for _, s := range in.States {
					if s.Dir == 2 /* types.RecvOnly */ && isDone(s.Chan) {
						has = true
					}
				}
				add("select-cancelable", has, "blocking select must contain a <-ctx.Done() case", in.Pos())
			case ssa.CallInstruction:
				if sc := in.Common().StaticCallee(); sc != nil && sc.String() == "time.Sleep" {
					add("sleep", false, "time.Sleep cannot be interrupted by cancellation", in.Pos())
				}
			}
		}
	}
	if !hasKind(out, "cancelable") {
		add("no-blocking", true, "function has no blocking instruction", fn.Pos())
	}
	return out
}

// storeAfterCapture returns a Store to the cell allocated by al that can
// execute after instruction i of block b without al itself executing in
// between, or nil.
func storeAfterCapture(b *ssa.BasicBlock, i int, al *ssa.Alloc) *ssa.Store {
	scan := func(blk *ssa.BasicBlock, from int) (*ssa.Store, bool) {
		for _, in := range blk.Instrs[from:] {
			if in == ssa.Instruction(al) {
				return nil, false
			}
			if st, ok := in.(*ssa.Store); ok && st.Addr == ssa.Value(al) {
				return st, false
			}
		}
		return nil, true
	}
	st, cont := scan(b, i+1)
	if st != nil {
		return st
	}
	if !cont {
		return nil
	}
	seen := map[*ssa.BasicBlock]bool{}
	work := append([]*ssa.BasicBlock{}, b.Succs...)
	for len(work) > 0 {
		blk := work[len(work)-1]
		work = work[:len(work)-1]
		if seen[blk] {
			continue
		}
		seen[blk] = true
		st, cont := scan(blk, 0)
		if st != nil {
			return st
		}
		if cont {
			work = append(work, blk.Succs...)
		}
	}
	return nil
}

func hasKind(out []*Obligation, what string) bool {
	for _, o := range out {
		if !strings.HasPrefix(o.Label, "capture-stable") {
			return true
		}
	}
	return false
}

// loopExitObligations: `opt exhaustive` - every loop of the function is left
// only when its condition (range) is exhausted: no break, goto or return out
// of the body; `opt nobreak` - the same, but returning (or panicking) from
// inside a loop is allowed. With per-iteration obligations (each element is
// handled correctly) this gives completeness: every element is handled.
func loopExitObligations(fn *ssa.Function, name string, enc *Enc, exhaustive bool, tags []string) []*Obligation {
	var out []*Obligation
	// natural loops
	type loop struct {
		h    *ssa.BasicBlock
		body map[*ssa.BasicBlock]bool
	}
	loops := map[*ssa.BasicBlock]*loop{}
	for _, b := range fn.Blocks {
		for _, s := range b.Succs {
			if !s.Dominates(b) {
				continue
			}
			l := loops[s]
			if l == nil {
				l = &loop{h: s, body: map[*ssa.BasicBlock]bool{s: true}}
				loops[s] = l
			}
			work := []*ssa.BasicBlock{b}
			for len(work) > 0 {
				x := work[len(work)-1]
				work = work[:len(work)-1]
				if l.body[x] {
					continue
				}
				l.body[x] = true
				work = append(work, x.Preds...)
			}
		}
	}
	// does control from b inevitably reach a return or panic without re-entering a loop?
	var leaves func(b *ssa.BasicBlock, depth int) bool
	leaves = func(b *ssa.BasicBlock, depth int) bool {
		if depth > 8 || len(b.Instrs) == 0 {
			return false
		}
		switch b.Instrs[len(b.Instrs)-1].(type) {
		case *ssa.Return, *ssa.Panic:
			return true
		}
		if len(b.Succs) == 1 {
			return leaves(b.Succs[0], depth+1)
		}
		return false
	}
	var hs []*ssa.BasicBlock
	for h := range loops {
		hs = append(hs, h)
	}
	sort.Slice(hs, func(i, j int) bool { return hs[i].Index < hs[j].Index })
	n := 0
	for _, h := range hs {
		l := loops[h]
		okk := true
		var pos token.Pos
		// where the loop goes when its range or condition is exhausted: jumping
		// there from inside the body is a break, even if that block only returns
		normalExit := map[*ssa.BasicBlock]bool{}
		for _, s := range h.Succs {
			if !l.body[s] {
				normalExit[s] = true
			}
		}
		for b := range l.body {
			if b == h {
				continue
			}
			for _, s := range b.Succs {
				if l.body[s] {
					continue
				}
				if !exhaustive && !normalExit[s] && leaves(s, 0) {
					continue
				}
				okk = false
				for _, in := range b.Instrs {
					if in.Pos().IsValid() {
						pos = in.Pos()
					}
				}
			}
		}
		if !pos.IsValid() {
			for _, in := range h.Instrs {
				if in.Pos().IsValid() {
					pos = in.Pos()
					break
				}
			}
		}
		n++
		st, goal := "unsat", "true"
		if !okk {
			st, goal = "sat", "false"
		}
		p := fn.Prog.Fset.Position(pos)
		label := fmt.Sprintf("loop-exit-%d", n)
		out = append(out, &Obligation{Name: fmt.Sprintf("%s/discipline/%s", name, label), Func: name, Kind: "discipline",
			Label: label, Tags: tags, Goal: goal, Guard: "true", Enc: enc, Src: "the loop is left only when its range or condition is exhausted (no break out of the body)",
			Where:  fmt.Sprintf("%s:%d", shortPath(p.Filename), p.Line),
			Result: &SolveResult{Status: st, Solver: "ssa-dataflow", All: map[string]string{"ssa-dataflow": st}}})
	}
	return out
}

// blocksWithHelpers: the blocks of fn and of the helpers without a contract that
// it calls (the ones the executor runs in place): a blocking operation moved
// into such a helper is still an operation of fn for the blocking discipline.
func blocksWithHelpers(fn *ssa.Function, enc *Enc) []*ssa.BasicBlock {
	var out []*ssa.BasicBlock
	seen := map[*ssa.Function]bool{}
	var visit func(f *ssa.Function, depth int)
	visit = func(f *ssa.Function, depth int) {
		if seen[f] {
			return
		}
		seen[f] = true
		out = append(out, f.Blocks...)
		if depth >= maxInlineDepth {
			return
		}
		for _, b := range f.Blocks {
			for _, in := range b.Instrs {
				ci, ok := in.(ssa.CallInstruction)
				if !ok {
					continue
				}
				if _, isGo := in.(*ssa.Go); isGo {
					continue
				}
				callee := ci.Common().StaticCallee()
				if callee == nil || ci.Common().IsInvoke() || callee.Pkg == nil || len(callee.Blocks) == 0 {
					continue
				}
				if !strings.HasPrefix(callee.Pkg.Pkg.Path(), modPath) || callee.Parent() != nil {
					continue
				}
				if enc.cs.Funcs[shortName(callee)] != nil {
					continue
				}
				visit(callee, depth+1)
			}
		}
	}
	visit(fn, 0)
	return out
}
