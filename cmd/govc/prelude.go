package main

import (
	"os"
	"path/filepath"
	"strings"
)

type funSigT struct {
	args []string
	ret  string
}

var preludeText string
var preludeNoQuant string // prelude without quantified axioms (for cover queries)
var preludeSigs = map[string]funSigT{}

// sexp is a minimal s-expression: atom or list.
type sexp struct {
	atom string
	list []*sexp
	isList bool
}

func (s *sexp) String() string {
	if !s.isList {
		return s.atom
	}
	var ps []string
	for _, c := range s.list {
		ps = append(ps, c.String())
	}
	return "(" + strings.Join(ps, " ") + ")"
}

func parseSexps(src string) []*sexp {
	var out []*sexp
	pos := 0
	var parse func() *sexp
	skip := func() {
		for pos < len(src) {
			c := src[pos]
			if c == ';' {
				for pos < len(src) && src[pos] != '\n' {
					pos++
				}
			} else if c == ' ' || c == '\n' || c == '\t' || c == '\r' {
				pos++
			} else {
				break
			}
		}
	}
	parse = func() *sexp {
		skip()
		if pos >= len(src) {
			return nil
		}
		if src[pos] == '(' {
			pos++
			s := &sexp{isList: true}
			for {
				skip()
				if pos >= len(src) {
					return s
				}
				if src[pos] == ')' {
					pos++
					return s
				}
				s.list = append(s.list, parse())
			}
		}
		st := pos
		if src[pos] == '|' {
			pos++
			for pos < len(src) && src[pos] != '|' {
				pos++
			}
			pos++
		} else if src[pos] == '"' {
			pos++
			for pos < len(src) && src[pos] != '"' {
				pos++
			}
			pos++
		} else {
			for pos < len(src) && !strings.ContainsRune(" \n\t\r()", rune(src[pos])) {
				pos++
			}
		}
		return &sexp{atom: src[st:pos]}
	}
	for {
		s := parse()
		if s == nil {
			break
		}
		out = append(out, s)
	}
	return out
}

func loadPrelude(verifDir string) error {
	files, _ := filepath.Glob(filepath.Join(verifDir, "lib", "*.smt2"))
	var sb strings.Builder
	for _, f := range files {
		b, err := os.ReadFile(f)
		if err != nil {
			return err
		}
		sb.Write(b)
		sb.WriteString("\n")
	}
	preludeText = sb.String()
	var nq strings.Builder
	for _, s := range parseSexps(preludeText) {
		if s.isList && len(s.list) > 0 && s.list[0].atom == "assert" && strings.Contains(s.String(), "forall") {
			continue
		}
		nq.WriteString(s.String())
		nq.WriteString("\n")
	}
	preludeNoQuant = nq.String()
	for _, s := range parseSexps(preludeText) {
		if !s.isList || len(s.list) < 3 {
			continue
		}
		switch s.list[0].atom {
		case "declare-fun":
			var args []string
			for _, a := range s.list[2].list {
				args = append(args, a.String())
			}
			preludeSigs[s.list[1].atom] = funSigT{args: args, ret: s.list[3].String()}
		case "declare-const":
			preludeSigs[s.list[1].atom] = funSigT{ret: s.list[2].String()}
		case "define-fun", "define-fun-rec":
			var args []string
			for _, a := range s.list[2].list {
				args = append(args, a.list[1].String())
			}
			preludeSigs[s.list[1].atom] = funSigT{args: args, ret: s.list[3].String()}
		}
	}
	return nil
}

func (e *Enc) funSig(name string) (funSigT, bool) {
	s, ok := preludeSigs[name]
	return s, ok
}
