package main

import (
	"bytes"
	"context"
	"crypto/sha256"
	"fmt"
	"os"
	"os/exec"
	"path/filepath"
	"strings"
	"sync"
	"time"
)

type SolveResult struct {
	Status  string // unsat sat unknown timeout error
	Solver  string
	Seconds float64
	Model   string
	File    string
	Digest  string
	All     map[string]string // solver -> status
	Output  string
	Single  bool // thorough tier: proved by one solver binary only
}

type solverSpec struct {
	name string
	argv func(file string, timeoutS int) []string
	pre  string
}

// Quantifier instantiation is heuristic, so several configurations are raced
// per obligation; only `unsat` (discharged) or `sat` (counterexample) decide.
var solvers = []solverSpec{
	{"z3", func(f string, t int) []string { return []string{"z3", fmt.Sprintf("-T:%d", t), f} }, ""},
	{"z3-new", func(f string, t int) []string { return []string{"z3-new", fmt.Sprintf("-T:%d", t), f} }, ""},
	{"cvc5", func(f string, t int) []string {
		return []string{"cvc5", fmt.Sprintf("--tlimit=%d", t*1000), "--lang=smt2", f}
	}, ""},
	{"z3-new/seed1", func(f string, t int) []string {
		return []string{"z3-new", fmt.Sprintf("-T:%d", t), "smt.random_seed=1", f}
	}, ""},
	{"z3/seed7", func(f string, t int) []string {
		return []string{"z3", fmt.Sprintf("-T:%d", t), "smt.random_seed=7", f}
	}, ""},
	{"z3-new/nombqi", func(f string, t int) []string {
		return []string{"z3-new", fmt.Sprintf("-T:%d", t), "smt.mbqi=false", "smt.random_seed=3", f}
	}, ""},
	{"z3-new/seed5", func(f string, t int) []string {
		return []string{"z3-new", fmt.Sprintf("-T:%d", t), "smt.random_seed=5", f}
	}, ""},
	{"z3-new/seed11", func(f string, t int) []string {
		return []string{"z3-new", fmt.Sprintf("-T:%d", t), "smt.random_seed=11", "smt.qi.eager_threshold=20", f}
	}, ""},
	{"cvc5/enum", func(f string, t int) []string {
		return []string{"cvc5", fmt.Sprintf("--tlimit=%d", t*1000), "--enum-inst", "--lang=smt2", f}
	}, ""},
}

// queryText assembles the SMT-LIB script for an obligation.
func (o *Obligation) queryText(forCVC5 bool) string {
	var sb strings.Builder
	if forCVC5 {
		sb.WriteString("(set-option :produce-models true)\n(set-logic ALL)\n")
	} else {
		sb.WriteString("(set-option :produce-models true)\n")
	}
	if o.Cover {
		sb.WriteString(preludeNoQuant)
	} else {
		sb.WriteString(preludeText)
	}
	for _, d := range o.Enc.decls {
		if o.Cover && strings.HasPrefix(d, "(assert (forall") {
			continue
		}
		sb.WriteString(d)
		sb.WriteByte('\n')
	}
	for _, l := range o.Enc.body[:o.Prefix] {
		if o.Cover && strings.HasPrefix(l, "(assert (forall") {
			continue
		}
		sb.WriteString(l)
		sb.WriteByte('\n')
	}
	if o.Guard != "" && o.Guard != "true" {
		fmt.Fprintf(&sb, "(assert %s)\n", o.Guard)
	}
	if o.Cover {
		fmt.Fprintf(&sb, "(assert %s)\n", o.Goal)
	} else {
		fmt.Fprintf(&sb, "(assert (not %s))\n", o.Goal)
	}
	sb.WriteString("(check-sat)\n")
	if len(o.Inputs) > 0 {
		var ts []string
		for _, t := range sortedVals(o.Inputs) {
			ts = append(ts, t)
		}
		fmt.Fprintf(&sb, "(get-value (%s))\n", strings.Join(ts, " "))
	}
	return sb.String()
}

func sortedVals(m map[string]string) []string {
	var ks []string
	for k := range m {
		ks = append(ks, k)
	}
	sortStrings(ks)
	var vs []string
	for _, k := range ks {
		vs = append(vs, m[k])
	}
	return vs
}

func sortStrings(s []string) {
	for i := 1; i < len(s); i++ {
		for j := i; j > 0 && s[j] < s[j-1]; j-- {
			s[j], s[j-1] = s[j-1], s[j]
		}
	}
}

type Solver struct {
	Dir       string
	TimeoutS  int
	NeedTwo   bool // thorough: require agreement of two different solver binaries
	Workers   int
	OnlyZ3    bool
}

func (s *Solver) solveAll(obls []*Obligation) {
	var wg sync.WaitGroup
	ch := make(chan *Obligation)
	w := s.Workers
	if w <= 0 {
		w = 6
	}
	for i := 0; i < w; i++ {
		wg.Add(1)
		go func() {
			defer wg.Done()
			for o := range ch {
				if o.Result == nil { // discipline obligations are decided by the generator (ssa-dataflow)
					o.Result = s.solve(o)
				}
			}
		}()
	}
	for _, o := range obls {
		ch <- o
	}
	close(ch)
	wg.Wait()
}

func (s *Solver) solve(o *Obligation) *SolveResult {
	if o.Goal == "true" && !o.Cover {
		return &SolveResult{Status: "unsat", Solver: "trivial", All: map[string]string{}}
	}
	base := filepath.Join(s.Dir, sanitize(o.Name))
	q := o.queryText(false)
	qc := o.queryText(true)
	f1, f2 := base+".smt2", base+".cvc5.smt2"
	os.WriteFile(f1, []byte(q), 0o644)
	os.WriteFile(f2, []byte(qc), 0o644)
	sum := sha256.Sum256([]byte(q))
	res := &SolveResult{File: f1, Digest: fmt.Sprintf("%x", sum[:8]), All: map[string]string{}}
	type out struct {
		name, status, text string
		secs         float64
	}
	ctx, cancel := context.WithCancel(context.Background())
	defer cancel()
	outs := make(chan out, len(solvers))
	n := 0
	for _, sp := range solvers {
		if (s.OnlyZ3 || o.Cover) && strings.HasPrefix(sp.name, "cvc5") {
			continue
		}
		if o.Cover && strings.Contains(sp.name, "/") {
			continue
		}
		n++
		go func(sp solverSpec) {
			f := f1
			if strings.HasPrefix(sp.name, "cvc5") {
				f = f2
			}
			tmo := s.TimeoutS
			if len(o.Tags) == 0 && (o.Kind == "post" || o.Kind == "lemma" || o.Kind == "safety" || (o.Kind == "pre" && strings.HasSuffix(o.Label, ".UNREACHABLE"))) && tmo > 3 {
				tmo = 3 // informative clauses never decide a verdict: do not let them slow the check
			}
			argv := sp.argv(f, tmo)
			start := time.Now()
			cmd := exec.CommandContext(ctx, argv[0], argv[1:]...)
			var buf bytes.Buffer
			cmd.Stdout = &buf
			cmd.Stderr = &buf
			_ = cmd.Run()
			txt := buf.String()
			first := strings.TrimSpace(strings.SplitN(txt, "\n", 2)[0])
			st := "unknown"
			switch {
			case first == "unsat":
				st = "unsat"
			case first == "sat":
				st = "sat"
			case first == "timeout" || strings.Contains(first, "timeout") || strings.Contains(txt, "interrupted by timeout"):
				st = "timeout"
			case first == "unknown":
				st = "unknown"
			case strings.HasPrefix(first, "(error"):
				st = "error"
			}
			if ctx.Err() != nil && st != "unsat" && st != "sat" {
				st = "cancelled"
			}
			outs <- out{sp.name, st, txt, time.Since(start).Seconds()}
		}(sp)
	}
	definitive := 0
	start := time.Now()
	for i := 0; i < n; i++ {
		r := <-outs
		res.All[r.name] = r.status
		if r.status == "error" && res.Output == "" {
			res.Output = r.name + ": " + firstLines(r.text, 5)
		}
		if r.status == "unknown" && res.Model == "" && strings.Contains(r.text, "((") {
			res.Model = r.text // candidate model (quantifiers: incomplete); only trusted if it replays
		}
		if r.status == "unsat" || r.status == "sat" {
			if definitive == 0 {
				res.Status, res.Solver, res.Seconds = r.status, r.name, r.secs
				if r.status == "sat" {
					res.Model = r.text
				}
			} else if res.Status != r.status {
				res.Status = "disagree"
			}
			if definitive == 0 || strings.SplitN(r.name, "/", 2)[0] != strings.SplitN(res.Solver, "/", 2)[0] {
				definitive++
			}
			if !s.NeedTwo || definitive >= 2 || r.status == "sat" {
				cancel()
			}
		}
	}
	if res.Status == "" {
		res.Status = "unknown"
		for _, st := range res.All {
			if st == "timeout" {
				res.Status = "timeout"
			}
		}
		res.Seconds = time.Since(start).Seconds()
	}
	if s.NeedTwo && res.Status == "unsat" && definitive < 2 {
		// discharged, but only one solver binary found the proof within the
		// budget: recorded in the evidence, not an alarm (quantifier
		// instantiation is heuristic; the others answered unknown/timeout, none
		// answered sat)
		res.Single = true
	}
	return res
}

func firstLines(s string, n int) string {
	ls := strings.Split(s, "\n")
	if len(ls) > n {
		ls = ls[:n]
	}
	return strings.Join(ls, "\n")
}
