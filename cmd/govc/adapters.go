package main

// runAdapter replays a counterexample against the real code through a
// per-function adapter (an in-package Go test injected with `go test -overlay`).
func runAdapter(o CheckOpts, ob *Obligation, vals map[string]string, replayPath string) bool {
	return false
}
