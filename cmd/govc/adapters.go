package main

import (
	"encoding/json"
	"fmt"
	"os"
	"os/exec"
	"path/filepath"
	"strings"
)

var pkgDirs = map[string]string{
	"corerad": "internal/corerad", "config": "internal/config", "plugin": "internal/plugin",
	"system": "internal/system", "netstate": "internal/netstate", "crhttp": "internal/crhttp",
}

// runAdapter replays a counterexample against the real code through a
// per-function adapter: an in-package Go test injected with `go test -overlay`
// (nothing is written into the repository). The adapter receives the model and
// the failed clause label, calls the real function and prints REPLAY-CONFIRMED
// when the real code violates the clause for that input.
func runAdapter(o CheckOpts, ob *Obligation, vals map[string]string, replayPath string) bool {
	ok, out := runAdapterRaw(o.Verif, o.Root, ob.Func, ob.Name, ob.Label, ob.Kind, vals)
	// record in the replay file
	var m map[string]any
	if b, err := os.ReadFile(replayPath); err == nil && json.Unmarshal(b, &m) == nil {
		m["model"] = vals
		m["function"] = ob.Func
		m["label"] = ob.Label
		m["kind"] = ob.Kind
		m["replay_confirmed"] = ok
		m["replay_output"] = out
		nb, _ := json.MarshalIndent(m, "", " ")
		os.WriteFile(replayPath, nb, 0o644)
	}
	return ok
}

func adapterFor(verif, fn string) string {
	p := filepath.Join(verif, "replay", "adapters", sanitize(fn)+"_test.go")
	if _, err := os.Stat(p); err == nil {
		return p
	}
	return ""
}

func runAdapterRaw(verif, root, fn, obl, label, kind string, vals map[string]string) (bool, string) {
	ad := adapterFor(verif, fn)
	if ad == "" {
		return false, "no replay adapter for " + fn
	}
	pkg := fn[:strings.Index(fn, ".")]
	dir, ok := pkgDirs[pkg]
	if !ok {
		return false, "no package dir for " + pkg
	}
	tmp, err := os.MkdirTemp("", "govc-replay-")
	if err != nil {
		return false, err.Error()
	}
	defer os.RemoveAll(tmp)
	ov := map[string]any{"Replace": map[string]string{filepath.Join(root, dir, "zz_govc_replay_test.go"): ad}}
	ob, _ := json.Marshal(ov)
	ovf := filepath.Join(tmp, "overlay.json")
	os.WriteFile(ovf, ob, 0o644)
	mb, _ := json.Marshal(vals)
	cmd := exec.Command("go", "test", "-overlay", ovf, "-vet=off", "-count=1", "-timeout", "120s", "-v", "-run", "TestGovcReplay", "./"+dir)
	cmd.Dir = root
	cmd.Env = append(os.Environ(), "GOFLAGS=-mod=mod", "GOPROXY=off", "GOSUMDB=off", "GOTOOLCHAIN=local",
		"GOVC_MODEL="+string(mb), "GOVC_OBLIGATION="+obl, "GOVC_LABEL="+label, "GOVC_KIND="+kind)
	if kind == "thorough" || kind == "subset" {
		cmd.Env = append(cmd.Env, "GOVC_ALL=1")
	}
	out, _ := cmd.CombinedOutput()
	s := string(out)
	return strings.Contains(s, "REPLAY-CONFIRMED"), firstLines(s, 40)
}

// replayFile re-runs the adapter for a stored replay file.
func replayFile(verif, root, path string) int {
	b, err := os.ReadFile(path)
	if err != nil {
		fmt.Fprintln(os.Stderr, err)
		return 2
	}
	var m struct {
		Property   string            `json:"property"`
		Obligation string            `json:"obligation"`
		Function   string            `json:"function"`
		Label      string            `json:"label"`
		Kind       string            `json:"kind"`
		Model      map[string]string `json:"model"`
		Reason     string            `json:"reason"`
	}
	if err := json.Unmarshal(b, &m); err != nil {
		fmt.Fprintln(os.Stderr, err)
		return 2
	}
	if m.Function == "" {
		fmt.Printf("replay file names obligation %s (%s); it carries no input to run: no-failing-input-found\n", m.Obligation, m.Reason)
		return 1
	}
	ok, out := runAdapterRaw(verif, root, m.Function, m.Obligation, m.Label, m.Kind, m.Model)
	fmt.Println(out)
	if ok {
		fmt.Printf("VIOLATION property=%s replay=%s\n", m.Property, path)
		return 1
	}
	fmt.Println("replay did not reproduce the violation on this tree")
	return 0
}
