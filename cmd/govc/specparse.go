package main

import (
	"strconv"
	"fmt"
	"strings"
	"unicode"
)

// Spec expression AST ------------------------------------------------------

type SExpr interface{ String() string }

type (
	SIdent  struct{ Name string }
	SInt    struct{ V string }
	SStr    struct{ V string }
	SUnary  struct{ Op string; X SExpr }
	SBinary struct {
		Op   string
		L, R SExpr
	}
	SSel   struct{ X SExpr; F string }
	SIndex struct{ X, I SExpr }
	SCall  struct {
		Fn   string
		Args []SExpr
	}
)

func (e *SIdent) String() string  { return e.Name }
func (e *SInt) String() string    { return e.V }
func (e *SStr) String() string    { return fmt.Sprintf("%q", e.V) }
func (e *SUnary) String() string  { return e.Op + e.X.String() }
func (e *SBinary) String() string { return "(" + e.L.String() + " " + e.Op + " " + e.R.String() + ")" }
func (e *SSel) String() string    { return e.X.String() + "." + e.F }
func (e *SIndex) String() string  { return e.X.String() + "[" + e.I.String() + "]" }
func (e *SCall) String() string {
	var as []string
	for _, a := range e.Args {
		as = append(as, a.String())
	}
	return e.Fn + "(" + strings.Join(as, ", ") + ")"
}

// Lexer ---------------------------------------------------------------------

type tok struct {
	kind string // id int str op eof
	s    string
}

func lexSpec(src string) ([]tok, error) {
	var ts []tok
	i := 0
	ops := []string{"<==>", "==>", "&&", "||", "==", "!=", "<=", ">=", "<<", ">>", "+", "-", "*", "/", "%", "<", ">", "!", "(", ")", "[", "]", ",", ".", "&", "|", "^", ":", "?"}
	for i < len(src) {
		c := rune(src[i])
		if unicode.IsSpace(c) {
			i++
			continue
		}
		if unicode.IsLetter(c) || c == '_' {
			j := i
			for j < len(src) && (unicode.IsLetter(rune(src[j])) || unicode.IsDigit(rune(src[j])) || src[j] == '_' || src[j] == '$') {
				j++
			}
			ts = append(ts, tok{"id", src[i:j]})
			i = j
			continue
		}
		if unicode.IsDigit(c) {
			j := i
			for j < len(src) && (unicode.IsDigit(rune(src[j])) || src[j] == '_') {
				j++
			}
			ts = append(ts, tok{"int", strings.ReplaceAll(src[i:j], "_", "")})
			i = j
			continue
		}
		if c == '"' {
			j := i + 1
			for j < len(src) && src[j] != '"' {
				if src[j] == '\\' {
					j++
				}
				j++
			}
			if j >= len(src) {
				return nil, fmt.Errorf("unterminated string in %q", src)
			}
			lit := src[i+1 : j]
			if strings.Contains(lit, "\\") {
				// Go escapes (\n, \t, \\, \") mean what they mean in Go source
				if u, err := strconv.Unquote("\"" + lit + "\""); err == nil {
					lit = u
				}
			}
			ts = append(ts, tok{"str", lit})
			i = j + 1
			continue
		}
		matched := false
		for _, op := range ops {
			if strings.HasPrefix(src[i:], op) {
				ts = append(ts, tok{"op", op})
				i += len(op)
				matched = true
				break
			}
		}
		if !matched {
			return nil, fmt.Errorf("bad character %q in spec expression %q", c, src)
		}
	}
	ts = append(ts, tok{"eof", ""})
	return ts, nil
}

// Parser (Pratt) -------------------------------------------------------------

type sparser struct {
	ts  []tok
	pos int
	src string
}

func parseSpec(src string) (SExpr, error) {
	ts, err := lexSpec(src)
	if err != nil {
		return nil, err
	}
	p := &sparser{ts: ts, src: src}
	e, err := p.expr(0)
	if err != nil {
		return nil, err
	}
	if p.peek().kind != "eof" {
		return nil, fmt.Errorf("trailing tokens at %q in %q", p.peek().s, src)
	}
	return e, nil
}

func (p *sparser) peek() tok { return p.ts[p.pos] }
func (p *sparser) next() tok { t := p.ts[p.pos]; p.pos++; return t }

var binPrec = map[string]int{
	"<==>": 1, "==>": 2, "||": 3, "&&": 4,
	"==": 5, "!=": 5, "<": 5, "<=": 5, ">": 5, ">=": 5,
	"+": 6, "-": 6, "|": 6, "^": 6,
	"*": 7, "/": 7, "%": 7, "&": 7, "<<": 7, ">>": 7,
}

func (p *sparser) expr(minPrec int) (SExpr, error) {
	l, err := p.unary()
	if err != nil {
		return nil, err
	}
	for {
		t := p.peek()
		if t.kind != "op" {
			return l, nil
		}
		prec, ok := binPrec[t.s]
		if !ok || prec < minPrec {
			return l, nil
		}
		p.next()
		nextMin := prec + 1
		if t.s == "==>" { // right assoc
			nextMin = prec
		}
		r, err := p.expr(nextMin)
		if err != nil {
			return nil, err
		}
		l = &SBinary{Op: t.s, L: l, R: r}
	}
}

func (p *sparser) unary() (SExpr, error) {
	t := p.peek()
	if t.kind == "op" && (t.s == "!" || t.s == "-") {
		p.next()
		x, err := p.unary()
		if err != nil {
			return nil, err
		}
		return &SUnary{Op: t.s, X: x}, nil
	}
	return p.postfix()
}

func (p *sparser) postfix() (SExpr, error) {
	var e SExpr
	t := p.next()
	switch t.kind {
	case "int":
		e = &SInt{V: t.s}
	case "str":
		e = &SStr{V: t.s}
	case "id":
		e = &SIdent{Name: t.s}
	case "op":
		if t.s == "(" {
			x, err := p.expr(0)
			if err != nil {
				return nil, err
			}
			if p.next().s != ")" {
				return nil, fmt.Errorf("expected ) in %q", p.src)
			}
			e = x
		} else {
			return nil, fmt.Errorf("unexpected %q in %q", t.s, p.src)
		}
	default:
		return nil, fmt.Errorf("unexpected end of %q", p.src)
	}
	for {
		t := p.peek()
		if t.kind != "op" {
			return e, nil
		}
		switch t.s {
		case ".":
			p.next()
			f := p.next()
			if f.kind != "id" && f.kind != "int" {
				return nil, fmt.Errorf("expected field after . in %q", p.src)
			}
			e = &SSel{X: e, F: f.s}
		case "[":
			p.next()
			i, err := p.expr(0)
			if err != nil {
				return nil, err
			}
			if p.next().s != "]" {
				return nil, fmt.Errorf("expected ] in %q", p.src)
			}
			e = &SIndex{X: e, I: i}
		case "(":
			// call: callee must be ident or selector chain → flatten name
			name := ""
			switch c := e.(type) {
			case *SIdent:
				name = c.Name
			case *SSel:
				name = c.String()
			default:
				return nil, fmt.Errorf("bad call target in %q", p.src)
			}
			p.next()
			var args []SExpr
			if p.peek().s != ")" {
				for {
					a, err := p.expr(0)
					if err != nil {
						return nil, err
					}
					args = append(args, a)
					if p.peek().s == "," {
						p.next()
						continue
					}
					break
				}
			}
			if p.next().s != ")" {
				return nil, fmt.Errorf("expected ) after args in %q", p.src)
			}
			e = &SCall{Fn: name, Args: args}
		default:
			return e, nil
		}
	}
}
