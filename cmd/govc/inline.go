package main

import (
	"fmt"
	"strings"

	"golang.org/x/tools/go/ssa"
)

// Inlining of helpers without a contract. A call to a function of the module
// that has no contract used to be an unknown call (everything reachable
// havocked, result unconstrained), which made a behaviour-preserving "extract
// helper" refactoring look like a violation. A small, loop-free, non-recursive
// helper without a contract is instead executed symbolically at the call site,
// in the caller's state and under the caller's contract (its `at` hooks, frame
// and safety obligations apply to the helper's instructions too). Helpers with
// a contract are never inlined: they are called modularly.

const maxInlineDepth = 3

type inlineRet struct {
	guard string
	vals  []Val
	st    *State
}

func (x *Exec) inlinable(callee *ssa.Function) bool {
	return x.inlinableLoops(callee, false)
}

// countLoops: number of loop headers of fn.
func countLoops(fn *ssa.Function) int {
	hs := map[*ssa.BasicBlock]bool{}
	for _, b := range fn.Blocks {
		for _, s := range b.Succs {
			if s.Dominates(b) {
				hs[s] = true
			}
		}
	}
	return len(hs)
}

// inlinableLoops: as inlinable; with loopsOK a helper that contains loops is
// accepted too (its loops then take the next loop ordinals of the caller's
// contract, see findLoops: "the loop moved into a helper").
func (x *Exec) inlinableLoops(callee *ssa.Function, loopsOK bool) bool {
	if callee == nil || len(callee.Blocks) == 0 || len(callee.Blocks) > 60 || x.inlineDepth >= maxInlineDepth {
		return false
	}
	if callee.Pkg == nil || !strings.HasPrefix(callee.Pkg.Pkg.Path(), modPath) {
		return false
	}
	if callee.Recover != nil {
		return false
	}
	if len(callee.FreeVars) > 0 && x.closureSite(callee) == nil {
		return false // a function literal is inlined only where its captured variables are known
	}
	for p := x; p != nil; p = p.parent {
		if p.fn == callee {
			return false // recursion
		}
	}
	for _, b := range callee.Blocks {
		for _, s := range b.Succs {
			if s.Dominates(b) && !loopsOK {
				return false // loop: needs an invariant, hence a contract
			}
		}
		for _, in := range b.Instrs {
			switch in := in.(type) {
			case *ssa.Defer, *ssa.RunDefers, *ssa.Go:
				return false
			case *ssa.Range, *ssa.Next:
				if !loopsOK {
					return false // a map range is a loop: only under the caller's loop invariants
				}
			case *ssa.MakeClosure:
				// a method value (x.m) is fine: it binds only its receiver; a function
				// literal would need its own contract
				f, ok := in.Fn.(*ssa.Function)
				if !ok {
					return false
				}
				if !strings.HasPrefix(f.Synthetic, "bound method wrapper") && x.enc.cs.Funcs[shortName(f)] == nil {
					return false // a literal without a contract of its own
				}
			}
		}
	}
	return true
}

// inlineCall executes callee on args in the caller's current state and returns
// the merged results.
func (x *Exec) inlineCall(callee *ssa.Function, args []Val, ssaArgs []ssa.Value) []Val {
	e := x.enc
	sub := newExec(e, callee, x.name, x.fc)
	sub.parent = x
	sub.inlineDepth = x.inlineDepth + 1
	sub.inlined = true
	sub.safetyTags = x.safetyTags
	sub.localGhost = x.localGhost
	sub.siteCount = x.siteCount
	sub.inputs = x.inputs
	sub.brk0 = x.brk0
	sub.entry = x.entry
	sub.refined = nil
	sub.entryGuard = x.guard
	sub.alias = nil
	sub.paramArgs = map[*ssa.Parameter]ssa.Value{}
	for i, p := range callee.Params {
		sub.vals[p] = args[i]
		if i < len(ssaArgs) {
			sub.paramArgs[p] = ssaArgs[i]
		}
	}
	if mc := x.closureSite(callee); mc != nil {
		for i, fv := range callee.FreeVars {
			if i < len(mc.Bindings) {
				sub.vals[fv] = x.val(mc.Bindings[i])
			}
		}
	}
	sub.st = x.st
	sub.loopBase = x.inlineLoopBase[callee]
	sub.findLoops()
	e.assumptionsUsed["helpers without a contract are executed at their call sites under the caller's contract (non-recursive, at most 3 deep; their loops only under loop invariants of the caller's contract): "+shortName(callee)] = true
	for _, b := range sub.topoOrder() {
		sub.execBlock(b)
	}
	x.obls = append(x.obls, sub.obls...)
	x.retCount = sub.retCount
	if len(sub.rets) == 0 {
		// the helper never returns (it always panics): nothing continues past the call
		e.assume(x.guard, "false")
		var out []Val
		rs := callee.Signature.Results()
		for i := 0; i < rs.Len(); i++ {
			out = append(out, x.freshVal("ret_"+callee.Name(), rs.At(i).Type(), x.brk(), x.guard))
		}
		return out
	}
	var sts []*State
	var conds []string
	for _, r := range sub.rets {
		sts = append(sts, r.st)
		conds = append(conds, r.guard)
	}
	// execution continues past the call only if the helper returned
	e.assume(x.guard, or(conds...))
	x.st = e.mergeStates(sts, conds)
	n := len(sub.rets[0].vals)
	out := make([]Val, n)
	for i := 0; i < n; i++ {
		v := sub.rets[len(sub.rets)-1].vals[i]
		for k := len(sub.rets) - 2; k >= 0; k-- {
			v = x.iteVal(sub.rets[k].guard, sub.rets[k].vals[i], v)
		}
		if v.Loc == nil && v.Tup == nil && v.T != "" && len(v.T) > 40 {
			v.T = e.define(fmt.Sprintf("inl_%s_%d", sanitize(callee.Name()), i), v.Sort, v.T)
		}
		out[i] = v
	}
	return out
}

// closureSite: the one place in the current function where the function literal
// callee is created (its captured variables are the bindings there).
func (x *Exec) closureSite(callee *ssa.Function) *ssa.MakeClosure {
	if x.fn == nil || callee.Parent() != x.fn {
		return nil
	}
	var site *ssa.MakeClosure
	for _, b := range x.fn.Blocks {
		for _, in := range b.Instrs {
			if mc, ok := in.(*ssa.MakeClosure); ok && mc.Fn == callee {
				if site != nil {
					return nil
				}
				site = mc
			}
		}
	}
	return site
}
