package main

import (
	"fmt"
	"go/types"
	"math/big"
	"sort"
	"strings"
)

// Val is a symbolic value: an SMT term with its sort and (when known) Go type.
type Val struct {
	T    string
	Sort string
	GT   types.Type
	Loc  *Loc  // non-nil for pointer values that denote an interior location
	Tup  []Val // tuple components
}

type PathElem struct {
	Field int    // struct field index, or -1 for array index
	Sel   string // selector function name
	Ctor  string
	NF    int
	Sels  []string
	Idx   string // array index term
	Sort  string // sort of the selected component
	GT    types.Type
}

// Loc is an addressable location: a root cell in a heap array plus a path.
type Loc struct {
	Key   string // heap key
	Ref   string // Int term (root ref)
	Idx   string // element index for mem_* keys ("" otherwise)
	Path  []PathElem
	RootS string // sort of root cell
	RootT types.Type
}

type StructInfo struct {
	Sort   string
	Ctor   string
	Fields []string // selector names
	FSorts []string
	FTypes []types.Type
	FNames []string
}

type Enc struct {
	prog    *Program
	cs      *Contracts
	decls   []string
	declSet map[string]bool
	body    []string
	sortMap map[string]string
	structs map[string]*StructInfo // by sort
	tags    map[string]int
	tagTypes map[int]types.Type
	strIDs  map[string]int
	nfresh  int
	heapSort map[string]string // heap key -> sort of the array
	notes   []string
	assumptionsUsed map[string]bool
	sentinels map[string]int
}

func NewEnc(p *Program, cs *Contracts) *Enc {
	e := &Enc{prog: p, cs: cs, declSet: map[string]bool{}, sortMap: map[string]string{},
		structs: map[string]*StructInfo{}, tags: map[string]int{}, tagTypes: map[int]types.Type{},
		strIDs: map[string]int{"": 0}, heapSort: map[string]string{}, assumptionsUsed: map[string]bool{}}
	for n, g := range cs.Ghosts {
		e.heapSort["G:"+n] = g.Sort
	}
	return e
}

func (e *Enc) note(f string, a ...any) {
	s := fmt.Sprintf(f, a...)
	for _, n := range e.notes {
		if n == s {
			return
		}
	}
	e.notes = append(e.notes, s)
}

func (e *Enc) decl(s string) {
	if !e.declSet[s] {
		e.declSet[s] = true
		e.decls = append(e.decls, s)
	}
}

func (e *Enc) emit(s string) { e.body = append(e.body, s) }

func (e *Enc) fresh(prefix, sort string) string {
	e.nfresh++
	n := fmt.Sprintf("%s!%d", sanitize(prefix), e.nfresh)
	e.decl(fmt.Sprintf("(declare-const %s %s)", n, sort))
	return n
}

// define introduces a named abbreviation in the body stream.
func (e *Enc) define(prefix, sort, term string) string {
	e.nfresh++
	n := fmt.Sprintf("%s!%d", sanitize(prefix), e.nfresh)
	e.emit(fmt.Sprintf("(define-fun %s () %s %s)", n, sort, term))
	return n
}

func (e *Enc) assume(guard, fact string) {
	if fact == "true" {
		return
	}
	if guard == "" || guard == "true" {
		e.emit(fmt.Sprintf("(assert %s)", fact))
	} else {
		e.emit(fmt.Sprintf("(assert (=> %s %s))", guard, fact))
	}
}

func sanitize(s string) string {
	var b strings.Builder
	for _, r := range s {
		switch {
		case r >= 'a' && r <= 'z', r >= 'A' && r <= 'Z', r >= '0' && r <= '9', r == '_', r == '.':
			b.WriteRune(r)
		case r == '*':
			b.WriteString("P")
		case r == '[' || r == ']':
			b.WriteString("_")
		default:
			b.WriteString("_")
		}
	}
	return b.String()
}

func (e *Enc) strID(s string) string {
	if id, ok := e.strIDs[s]; ok {
		return fmt.Sprint(id)
	}
	id := len(e.strIDs)
	e.strIDs[s] = id
	return fmt.Sprint(id)
}

// sentinelID gives package-level error values distinct negative payloads.
func (e *Enc) sentinelID(name string) int {
	if e.sentinels == nil {
		e.sentinels = map[string]int{}
	}
	if id, ok := e.sentinels[name]; ok {
		return id
	}
	id := -(len(e.sentinels) + 1)
	e.sentinels[name] = id
	return id
}

func (e *Enc) strLits() map[int]string {
	m := map[int]string{}
	for s, id := range e.strIDs {
		m[id] = s
	}
	return m
}

func typeKey(t types.Type) string {
	return types.TypeString(t, func(p *types.Package) string { return p.Path() })
}

func shortTypeName(t types.Type) string {
	return types.TypeString(t, func(p *types.Package) string { return p.Name() })
}

func (e *Enc) tagOf(t types.Type) int {
	k := typeKey(t)
	if id, ok := e.tags[k]; ok {
		return id
	}
	id := len(e.tags) + 1
	e.tags[k] = id
	e.tagTypes[id] = t
	return id
}

var expandPkgs = map[string]bool{
	"github.com/mdlayher/ndp":          true,
	"golang.org/x/net/ipv6":            true,
	"github.com/mdlayher/metricslite":  true,
}

func isNamed(t types.Type, pkg, name string) bool {
	n, ok := t.(*types.Named)
	if !ok {
		if a, ok2 := t.(*types.Alias); ok2 {
			return isNamed(types.Unalias(a), pkg, name)
		}
		return false
	}
	o := n.Obj()
	return o.Pkg() != nil && o.Pkg().Path() == pkg && o.Name() == name
}

// sortOf maps a Go type to an SMT sort, declaring datatypes on demand.
func (e *Enc) sortOf(t types.Type) string {
	t = types.Unalias(t)
	k := typeKey(t)
	if s, ok := e.sortMap[k]; ok {
		return s
	}
	s := e.sortOf1(t)
	e.sortMap[k] = s
	return s
}

func (e *Enc) sortOf1(t types.Type) string {
	switch {
	case isNamed(t, "time", "Time"):
		return "Int"
	case isNamed(t, "net/netip", "Addr"):
		return "Addr"
	case isNamed(t, "net/netip", "Prefix"):
		return "Pfx"
	}
	switch u := t.(type) {
	case *types.Named:
		if st, ok := u.Underlying().(*types.Struct); ok {
			return e.structSort(u, st)
		}
		return e.sortOf(u.Underlying())
	case *types.Basic:
		switch {
		case u.Info()&types.IsBoolean != 0:
			return "Bool"
		case u.Info()&types.IsInteger != 0:
			return "Int"
		case u.Info()&types.IsString != 0:
			return "Int"
		case u.Info()&types.IsFloat != 0:
			return "Real"
		case u.Kind() == types.UnsafePointer:
			return "Int"
		case u.Kind() == types.UntypedNil:
			return "Int"
		}
		return "Int"
	case *types.Pointer, *types.Chan, *types.Signature, *types.Map:
		return "Int"
	case *types.Slice:
		return "Slice"
	case *types.Interface:
		return "Iface"
	case *types.Struct:
		return e.structSort(nil, u)
	case *types.Array:
		return fmt.Sprintf("(Array Int %s)", e.sortOf(u.Elem()))
	case *types.Tuple:
		return "Tuple"
	case *types.TypeParam:
		return "Iface"
	}
	return "Int"
}

func (e *Enc) structSort(n *types.Named, st *types.Struct) string {
	name := ""
	expand := true
	if n != nil {
		o := n.Obj()
		pn := ""
		if o.Pkg() != nil {
			pn = o.Pkg().Name()
			pp := o.Pkg().Path()
			expand = strings.HasPrefix(pp, modPath) || expandPkgs[pp] || (pp == "net" && (o.Name() == "Interface" || o.Name() == "IPNet" || o.Name() == "OpError"))
		}
		name = "S_" + sanitize(pn+"_"+o.Name())
		if n.TypeArgs() != nil && n.TypeArgs().Len() > 0 {
			name += "_" + sanitize(shortTypeName(n.TypeArgs().At(0)))
		}
	} else if st.NumFields() == 0 {
		name = "S_empty"
	} else {
		name = "S_anon_" + sanitize(st.String())
	}
	if _, done := e.structs[name]; done && n == nil {
		return name
	}
	if !expand {
		s := "O" + name[1:]
		e.decl(fmt.Sprintf("(declare-sort %s 0)", s))
		e.decl(fmt.Sprintf("(declare-const zero!%s %s)", s, s))
		return s
	}
	// reserve to break cycles through pointers (pointers are Int so no real cycle)
	if n != nil {
		e.sortMap[typeKey(n)] = name
	}
	si := &StructInfo{Sort: name, Ctor: "mk!" + name}
	var fields []string
	for i := 0; i < st.NumFields(); i++ {
		f := st.Field(i)
		fs := e.sortOf(f.Type())
		sel := name + "." + sanitize(f.Name())
		if f.Name() == "_" {
			sel = fmt.Sprintf("%s._%d", name, i)
		}
		si.Fields = append(si.Fields, sel)
		si.FSorts = append(si.FSorts, fs)
		si.FTypes = append(si.FTypes, f.Type())
		si.FNames = append(si.FNames, f.Name())
		fields = append(fields, fmt.Sprintf("(%s %s)", sel, fs))
	}
	e.structs[name] = si
	if len(fields) == 0 {
		e.decl(fmt.Sprintf("(declare-datatypes ((%s 0)) (((%s))))", name, si.Ctor))
	} else {
		e.decl(fmt.Sprintf("(declare-datatypes ((%s 0)) (((%s %s))))", name, si.Ctor, strings.Join(fields, " ")))
	}
	return name
}

// constArray builds an array whose every element is the zero value of the
// element sort. cvc5 only accepts literal values in (as const ...); for other
// element sorts a fresh array constant with a defining axiom is used.
func (e *Enc) constArray(arrSort, elemSort string, elemT types.Type) string {
	z := e.zeroSort(elemSort, elemT)
	if isLiteralValue(z) {
		return fmt.Sprintf("((as const %s) %s)", arrSort, z)
	}
	name := "zarr!" + sanitize(arrSort)
	e.decl(fmt.Sprintf("(declare-const %s %s)", name, arrSort))
	idx := firstSort(arrSort[len("(Array "):])
	e.decl(fmt.Sprintf("(assert (forall ((i %s)) (! (= (select %s i) %s) :pattern ((select %s i)))))", idx, name, z, name))
	return name
}

func isLiteralValue(z string) bool {
	if z == "true" || z == "false" {
		return true
	}
	for _, c := range z {
		if !(c >= '0' && c <= '9' || c == '.' ) {
			return false
		}
	}
	return z != ""
}

// zero value of a sort/type
func (e *Enc) zero(t types.Type) string {
	return e.zeroSort(e.sortOf(t), t)
}

func (e *Enc) zeroSort(s string, t types.Type) string {
	switch s {
	case "Int":
		if t != nil && isNamed(types.Unalias(t), "time", "Time") {
			return "timeZero"
		}
		return "0"
	case "Bool":
		return "false"
	case "Real":
		return "0.0"
	case "Addr":
		return "addrZero"
	case "Pfx":
		return "pfxZero"
	case "Slice":
		return "(mk-slice 0 0)"
	case "Iface":
		return "(mk-iface 0 0)"
	}
	if si, ok := e.structs[s]; ok {
		if len(si.Fields) == 0 {
			return si.Ctor
		}
		var zs []string
		for i := range si.Fields {
			zs = append(zs, e.zeroSort(si.FSorts[i], si.FTypes[i]))
		}
		return fmt.Sprintf("(%s %s)", si.Ctor, strings.Join(zs, " "))
	}
	if strings.HasPrefix(s, "(Array Int ") {
		es := s[len("(Array Int ") : len(s)-1]
		var et types.Type
		if t != nil {
			if a, ok := types.Unalias(t).Underlying().(*types.Array); ok {
				et = a.Elem()
			}
		}
		return e.constArray(s, es, et)
	}
	if strings.HasPrefix(s, "O_") {
		return "zero!" + s
	}
	return "0"
}

// intRange returns bounds for Go integer types (nil if none).
func intRange(t types.Type) (lo, hi *big.Int) {
	b, ok := types.Unalias(t).Underlying().(*types.Basic)
	if !ok || b.Info()&types.IsInteger == 0 {
		return nil, nil
	}
	bits := 64
	switch b.Kind() {
	case types.Int8, types.Uint8:
		bits = 8
	case types.Int16, types.Uint16:
		bits = 16
	case types.Int32, types.Uint32:
		bits = 32
	}
	one := big.NewInt(1)
	if b.Info()&types.IsUnsigned != 0 {
		hi = new(big.Int).Sub(new(big.Int).Lsh(one, uint(bits)), one)
		return big.NewInt(0), hi
	}
	hi = new(big.Int).Sub(new(big.Int).Lsh(one, uint(bits-1)), one)
	lo = new(big.Int).Neg(new(big.Int).Lsh(one, uint(bits-1)))
	return lo, hi
}

func smtInt(b *big.Int) string {
	if b.Sign() < 0 {
		return fmt.Sprintf("(- %s)", new(big.Int).Neg(b).String())
	}
	return b.String()
}

// typeFacts returns well-typedness facts for term x of Go type t (a list of
// SMT Bool terms). brk is the current allocation frontier (may be "").
func (e *Enc) typeFacts(x string, t types.Type, brk string, depth int) []string {
	if t == nil || depth > 3 {
		return nil
	}
	t = types.Unalias(t)
	var fs []string
	if isNamed(t, "time", "Time") {
		return nil
	}
	switch u := t.Underlying().(type) {
	case *types.Basic:
		if lo, hi := intRange(t); lo != nil {
			fs = append(fs, fmt.Sprintf("(<= %s %s)", smtInt(lo), x), fmt.Sprintf("(<= %s %s)", x, smtInt(hi)))
		} else if u.Info()&types.IsString != 0 {
			fs = append(fs, fmt.Sprintf("(>= %s 0)", x))
		}
	case *types.Pointer, *types.Map, *types.Chan, *types.Signature:
		fs = append(fs, fmt.Sprintf("(>= %s 0)", x))
		if brk != "" {
			fs = append(fs, fmt.Sprintf("(< %s %s)", x, brk))
		}
	case *types.Slice:
		fs = append(fs, fmt.Sprintf("(>= (slen %s) 0)", x), fmt.Sprintf("(<= (slen %s) 4611686018427387904)", x), fmt.Sprintf("(>= (sref %s) 0)", x),
			fmt.Sprintf("(=> (= (sref %s) 0) (= (slen %s) 0))", x, x))
		if brk != "" {
			fs = append(fs, fmt.Sprintf("(< (sref %s) %s)", x, brk))
		}
	case *types.Interface:
		fs = append(fs, fmt.Sprintf("(>= (itag %s) 0)", x), fmt.Sprintf("(=> (= (itag %s) 0) (= (ival %s) 0))", x, x))
		if brk != "" {
			fs = append(fs, fmt.Sprintf("(< (ival %s) %s)", x, brk))
		}
	case *types.Struct:
		s := e.sortOf(t)
		if si, ok := e.structs[s]; ok {
			for i, sel := range si.Fields {
				fs = append(fs, e.typeFacts(fmt.Sprintf("(%s %s)", sel, x), si.FTypes[i], brk, depth+1)...)
			}
		}
	}
	return fs
}

func and(xs ...string) string {
	var ys []string
	for _, x := range xs {
		if x == "true" || x == "" {
			continue
		}
		if x == "false" {
			return "false"
		}
		ys = append(ys, x)
	}
	switch len(ys) {
	case 0:
		return "true"
	case 1:
		return ys[0]
	}
	return "(and " + strings.Join(ys, " ") + ")"
}

func or(xs ...string) string {
	var ys []string
	for _, x := range xs {
		if x == "false" || x == "" {
			continue
		}
		if x == "true" {
			return "true"
		}
		ys = append(ys, x)
	}
	switch len(ys) {
	case 0:
		return "false"
	case 1:
		return ys[0]
	}
	return "(or " + strings.Join(ys, " ") + ")"
}

func not(x string) string {
	switch x {
	case "true":
		return "false"
	case "false":
		return "true"
	}
	if strings.HasPrefix(x, "(not ") && strings.HasSuffix(x, ")") && balanced(x[5:len(x)-1]) {
		return x[5 : len(x)-1]
	}
	return "(not " + x + ")"
}

func balanced(s string) bool {
	d := 0
	for _, c := range s {
		if c == '(' {
			d++
		} else if c == ')' {
			d--
			if d < 0 {
				return false
			}
		}
	}
	return d == 0
}

func implies(a, b string) string {
	if a == "true" || a == "" {
		return b
	}
	if b == "true" {
		return "true"
	}
	return fmt.Sprintf("(=> %s %s)", a, b)
}

func ite(c, a, b string) string {
	if c == "true" {
		return a
	}
	if c == "false" {
		return b
	}
	if a == b {
		return a
	}
	return fmt.Sprintf("(ite %s %s %s)", c, a, b)
}

// heap key helpers -----------------------------------------------------------

func (e *Enc) heapKeyFor(pointee types.Type) (key, cellSort string) {
	s := e.sortOf(pointee)
	key = "H_" + sanitize(s)
	// named non-struct types (plugin.MTU, corerad.problems ...) get their own
	// heap component: Go's type system keeps *MTU apart from other *int cells
	if n, ok := types.Unalias(pointee).(*types.Named); ok {
		if _, isStruct := n.Underlying().(*types.Struct); !isStruct && n.Obj().Pkg() != nil && !isNamed(n, "time", "Time") && !isNamed(n, "net/netip", "Addr") && !isNamed(n, "net/netip", "Prefix") {
			key = "H_" + sanitize(n.Obj().Pkg().Name()+"_"+n.Obj().Name())
		}
	}
	e.heapSort[key] = fmt.Sprintf("(Array Int %s)", s)
	return key, s
}

func (e *Enc) memKeyFor(elem types.Type) (key, elemSort string) {
	s := e.sortOf(elem)
	// slice memory is partitioned by Go element type: a []plugin.Plugin can
	// never share a backing array with a []ndp.Option
	key = "M_" + sanitize(shortTypeName(types.Unalias(elem)))
	e.heapSort[key] = fmt.Sprintf("(Array Int (Array Int %s))", s)
	return key, s
}

func (e *Enc) mapKeysFor(m *types.Map) (dom, val, ks, vs string) {
	ks, vs = e.sortOf(m.Key()), e.sortOf(m.Elem())
	base := sanitize(ks) + "_" + sanitize(vs)
	dom, val = "MD_"+base, "MV_"+base
	e.heapSort[dom] = fmt.Sprintf("(Array Int (Array %s Bool))", ks)
	e.heapSort[val] = fmt.Sprintf("(Array Int (Array %s %s))", ks, vs)
	return
}

// State ------------------------------------------------------------------------

type deferred struct {
	instr any
	guard string
}

type State struct {
	H      map[string]string // heap key / ghost key -> current term
	Defers []deferred
	Epoch  int // bumped by havoc-everything: untouched keys resolve to a fresh initial version
}

var epochCounter int

func (s *State) clone() *State {
	n := &State{H: make(map[string]string, len(s.H)), Epoch: s.Epoch}
	for k, v := range s.H {
		n.H[k] = v
	}
	n.Defers = append([]deferred(nil), s.Defers...)
	return n
}

func (e *Enc) heapGet(st *State, key string) string {
	if t, ok := st.H[key]; ok {
		return t
	}
	srt, ok := e.heapSort[key]
	if !ok {
		panic("unknown heap key " + key)
	}
	// initial version: shared across the whole function (entry value), or
	// across everything after the same havoc-everything point
	n := fmt.Sprintf("%s!e%d", sanitize(key), st.Epoch)
	e.decl(fmt.Sprintf("(declare-const %s %s)", n, srt))
	st.H[key] = n // tracked from now on (so a later havoc-everything can relate old and new versions)
	return n
}

func (e *Enc) heapSet(st *State, key, term string) {
	srt := e.heapSort[key]
	st.H[key] = e.define(key, srt, term)
}

func (e *Enc) heapHavoc(st *State, key string) string {
	srt := e.heapSort[key]
	n := e.fresh(key, srt)
	st.H[key] = n
	return n
}

// mergeStates builds the state at a join from (state, edge condition) pairs.
func (e *Enc) mergeStates(ins []*State, conds []string) *State {
	if len(ins) == 1 {
		return ins[0].clone()
	}
	out := &State{H: map[string]string{}, Epoch: ins[0].Epoch}
	for _, s := range ins {
		if s.Epoch != out.Epoch {
			// paths disagree about a havoc-everything point: every key not
			// explicitly tracked is treated as havoced again
			epochCounter++
			out.Epoch = epochCounter
			break
		}
	}
	keys := map[string]bool{}
	for _, s := range ins {
		for k := range s.H {
			keys[k] = true
		}
	}
	var ks []string
	for k := range keys {
		ks = append(ks, k)
	}
	sort.Strings(ks)
	for _, k := range ks {
		terms := make([]string, len(ins))
		same := true
		for i, s := range ins {
			terms[i] = e.heapGet(s, k)
			if terms[i] != terms[0] {
				same = false
			}
		}
		if same {
			out.H[k] = terms[0]
			continue
		}
		t := terms[len(ins)-1]
		for i := len(ins) - 2; i >= 0; i-- {
			t = ite(conds[i], terms[i], t)
		}
		out.H[k] = e.define(k, e.heapSort[k], t)
	}
	// defers: take the longest list with guards (all our functions register defers on the entry path)
	for _, s := range ins {
		if len(s.Defers) > len(out.Defers) {
			out.Defers = append([]deferred(nil), s.Defers...)
		}
	}
	for _, s := range ins {
		same := len(s.Defers) == len(out.Defers)
		for i := 0; same && i < len(s.Defers); i++ {
			same = s.Defers[i].instr == out.Defers[i].instr
		}
		if !same {
			// a defer registered on some paths only: running "the" list at the
			// join would run it on paths that never registered it
			panic(unsupported{"defer registered on some of the paths reaching a join only"})
		}
	}
	return out
}

// Location load/store -----------------------------------------------------------

func (e *Enc) loadRoot(st *State, l *Loc) string {
	h := e.heapGet(st, l.Key)
	if l.Idx != "" {
		return fmt.Sprintf("(select (select %s %s) %s)", h, l.Ref, l.Idx)
	}
	return fmt.Sprintf("(select %s %s)", h, l.Ref)
}

func (e *Enc) load(st *State, l *Loc) string {
	x := e.loadRoot(st, l)
	for _, p := range l.Path {
		if p.Field >= 0 {
			x = fmt.Sprintf("(%s %s)", p.Sel, x)
		} else {
			x = fmt.Sprintf("(select %s %s)", x, p.Idx)
		}
	}
	return x
}

func (e *Enc) updatePath(root string, path []PathElem, v string) string {
	if len(path) == 0 {
		return v
	}
	p := path[0]
	if p.Field < 0 {
		inner := e.updatePath(fmt.Sprintf("(select %s %s)", root, p.Idx), path[1:], v)
		return fmt.Sprintf("(store %s %s %s)", root, p.Idx, inner)
	}
	args := make([]string, p.NF)
	for i := 0; i < p.NF; i++ {
		cur := fmt.Sprintf("(%s %s)", p.Sels[i], root)
		if i == p.Field {
			args[i] = e.updatePath(cur, path[1:], v)
		} else {
			args[i] = cur
		}
	}
	return fmt.Sprintf("(%s %s)", p.Ctor, strings.Join(args, " "))
}

func (e *Enc) store(st *State, l *Loc, v string) {
	h := e.heapGet(st, l.Key)
	root := e.loadRoot(st, l)
	nv := e.updatePath(root, l.Path, v)
	if l.Idx != "" {
		e.heapSet(st, l.Key, fmt.Sprintf("(store %s %s (store (select %s %s) %s %s))", h, l.Ref, h, l.Ref, l.Idx, nv))
	} else {
		e.heapSet(st, l.Key, fmt.Sprintf("(store %s %s %s)", h, l.Ref, nv))
	}
}

func (e *Enc) fieldElem(structSort string, idx int) PathElem {
	si := e.structs[structSort]
	if si == nil {
		panic("not a struct sort: " + structSort)
	}
	return PathElem{Field: idx, Sel: si.Fields[idx], Ctor: si.Ctor, NF: len(si.Fields), Sels: si.Fields,
		Sort: si.FSorts[idx], GT: si.FTypes[idx]}
}

// alloc returns a fresh reference and advances brk.
func (e *Enc) alloc(st *State) string {
	brk := e.heapGet(st, "brk")
	r := e.define("ref", "Int", brk)
	e.heapSet(st, "brk", fmt.Sprintf("(+ %s 1)", brk))
	return r
}
