package main

import (
	"flag"
	"fmt"
	"os"
	"strconv"
	"strings"
)

func main() {
	root := flag.String("root", "/repo", "repository root")
	verif := flag.String("verif", "/verif", "verification directory")
	dump := flag.String("dump", "", "dump SSA of functions whose short name contains this")
	list := flag.Bool("list", false, "list functions")
	prop := flag.String("prop", "", "property id to check (or 'all')")
	tier := flag.String("tier", "quick", "quick|thorough")
	evidence := flag.String("evidence", "", "evidence file to write")
	verbose := flag.Bool("v", false, "verbose")
	keep := flag.Bool("keep", false, "keep SMT files")
	only := flag.String("func", "", "only functions whose contract name contains this")
	replay := flag.String("replay", "", "re-run the replay adapter for a replay file")
	hints := flag.Bool("hints", false, "write lib/locals.json (name hints) from the current tree")
	flag.Parse()
	if *replay != "" {
		os.Exit(replayFile(*verif, *root, *replay))
	}
	if *prop != "" {
		seed := 0
		if s := os.Getenv("VERIF_SEED"); s != "" {
			seed, _ = strconv.Atoi(s)
		}
		os.Exit(runCheck(CheckOpts{Prop: *prop, Tier: *tier, Root: *root, Verif: *verif, Evidence: *evidence,
			Seed: seed, Verbose: *verbose, KeepSMT: *keep, OnlyFunc: *only}))
	}
	p, err := loadProgram(*root)
	if err != nil {
		fmt.Fprintln(os.Stderr, err)
		os.Exit(2)
	}
	if *hints {
		if err := loadPrelude(*verif); err != nil {
			fmt.Fprintln(os.Stderr, err)
			os.Exit(2)
		}
		cs, err := loadContracts(p, *verif)
		if err != nil {
			fmt.Fprintln(os.Stderr, err)
			os.Exit(2)
		}
		if err := writeHints(p, cs, *verif); err != nil {
			fmt.Fprintln(os.Stderr, err)
			os.Exit(2)
		}
	}
	if *list {
		for _, n := range p.FuncNames() {
			if strings.Contains(p.funcs[n].String(), modPath) {
				fmt.Println(n)
			}
		}
	}
	if *dump != "" {
		for _, n := range p.FuncNames() {
			if strings.Contains(n, *dump) {
				fmt.Println("=====", n)
				p.funcs[n].WriteTo(os.Stdout)
			}
		}
	}
}
