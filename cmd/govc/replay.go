package main

import (
	"regexp"
	"strings"
)

// modelValues parses the (get-value ...) answer into term -> value.
var reGetVal = regexp.MustCompile(`\(([^\s()]+)\s+(\(-\s*\d+\)|-?\d+|true|false|[^\s()]+)\)`)

func modelValues(ob *Obligation) map[string]string {
	out := map[string]string{}
	if ob.Result == nil {
		return out
	}
	txt := ob.Result.Model
	if i := strings.Index(txt, "\n"); i >= 0 {
		txt = txt[i+1:]
	}
	byTerm := map[string]string{}
	for _, m := range reGetVal.FindAllStringSubmatch(txt, -1) {
		v := m[2]
		v = strings.ReplaceAll(strings.ReplaceAll(strings.ReplaceAll(v, "(- ", "-"), "(-", "-"), ")", "")
		byTerm[m[1]] = strings.TrimSpace(v)
	}
	for name, term := range ob.Inputs {
		if v, ok := byTerm[term]; ok {
			out[name] = v
		}
	}
	return out
}

// replayModel tries to confirm a counterexample on the real code. It returns
// the replay file path and whether the failure was reproduced.
func replayModel(o CheckOpts, ob *Obligation) (string, bool) {
	vals := modelValues(ob)
	path := writeReplay(o, ob.Name, "solver found a counterexample", ob)
	confirmed := runAdapter(o, ob, vals, path)
	return path, confirmed
}
