package main

import (
	"fmt"
	"go/ast"
	"go/types"
	"os"
	"sort"
	"strings"

	"golang.org/x/tools/go/packages"
	"golang.org/x/tools/go/ssa"
	"golang.org/x/tools/go/ssa/ssautil"
)

// Program is the loaded repository: typed ASTs plus SSA for every function.
type Program struct {
	Root  string
	Pkgs  []*packages.Package
	SSA   *ssa.Program
	byPkg map[string]*ssa.Package // by package name (last path element)
	funcs map[string]*ssa.Function
	// contract comment files found (path -> lines)
	ContractFiles map[string][]string
}

const modPath = "github.com/mdlayher/corerad"

var targetPkgs = []string{
	"./internal/config", "./internal/corerad", "./internal/crhttp",
	"./internal/netstate", "./internal/plugin", "./internal/system",
}

func loadProgram(root string) (*Program, error) {
	cfg := &packages.Config{
		Mode: packages.NeedName | packages.NeedFiles | packages.NeedCompiledGoFiles |
			packages.NeedImports | packages.NeedDeps | packages.NeedTypes |
			packages.NeedSyntax | packages.NeedTypesInfo | packages.NeedTypesSizes | packages.NeedModule,
		Dir:        root,
		BuildFlags: []string{"-tags=verif", "-mod=mod"},
		Env: append(os.Environ(), "GOFLAGS=-mod=mod", "GOPROXY=off", "GOSUMDB=off",
			"GOTOOLCHAIN=local", "CGO_ENABLED=0"),
	}
	pkgs, err := packages.Load(cfg, targetPkgs...)
	if err != nil {
		return nil, err
	}
	var errs []string
	packages.Visit(pkgs, nil, func(p *packages.Package) {
		if strings.HasPrefix(p.PkgPath, modPath) {
			for _, e := range p.Errors {
				errs = append(errs, e.Error())
			}
		}
	})
	if len(errs) > 0 {
		return nil, fmt.Errorf("load errors:\n%s", strings.Join(errs, "\n"))
	}
	packages.Visit(pkgs, nil, func(p *packages.Package) {
		if p.Types != nil && p.TypesInfo != nil {
			typesInfoByPkg[p.Types] = p.TypesInfo
		}
	})
	prog, _ := ssautil.AllPackages(pkgs, ssa.InstantiateGenerics|ssa.GlobalDebug)
	prog.Build()
	p := &Program{Root: root, Pkgs: pkgs, SSA: prog, byPkg: map[string]*ssa.Package{},
		funcs: map[string]*ssa.Function{}, ContractFiles: map[string][]string{}}
	for _, sp := range prog.AllPackages() {
		if sp.Pkg != nil {
			p.byPkg[sp.Pkg.Path()] = sp
		}
	}
	all := ssautil.AllFunctions(prog)
	alignAllClosures(prog, all)
	for fn := range all {
		if fn.Pkg == nil && fn.Origin() == nil && fn.Parent() == nil {
			continue
		}
		p.funcs[shortName(fn)] = fn
	}
	// contract files: *_verif.go in target packages; must be comment-only.
	for _, pk := range pkgs {
		for i, f := range pk.CompiledGoFiles {
			if !strings.HasSuffix(f, "_verif.go") {
				continue
			}
			if i < len(pk.Syntax) {
				if len(pk.Syntax[i].Decls) != 0 {
					return nil, fmt.Errorf("%s: contract files must be comment-only (found declarations)", f)
				}
			}
			b, err := os.ReadFile(f)
			if err != nil {
				return nil, err
			}
			p.ContractFiles[pk.Name+"|"+f] = strings.Split(string(b), "\n")
		}
	}
	return p, nil
}

// shortName gives "pkg.Func", "pkg.(*T).M", "pkg.(T).M", closures "pkg.(*T).M$1",
// generic instances "pkg.pick[*ndp.MTU]".
func shortName(fn *ssa.Function) string {
	if n, ok := nameOverride[fn]; ok {
		return n
	}
	if fn.Parent() != nil {
		// anonymous: name is like "Run$1"
		par := shortName(fn.Parent())
		nm := fn.Name()
		if i := strings.LastIndex(nm, "$"); i >= 0 {
			return par + nm[i:]
		}
		return par + "$" + nm
	}
	pkg := ""
	if fn.Pkg != nil {
		pkg = fn.Pkg.Pkg.Name()
	} else if o := fn.Origin(); o != nil && o.Pkg != nil {
		pkg = o.Pkg.Pkg.Name()
	} else if fn.Object() != nil && fn.Object().Pkg() != nil {
		pkg = fn.Object().Pkg().Name()
	}
	name := fn.Name()
	if recv := fn.Signature.Recv(); recv != nil {
		t := recv.Type()
		ts := types.TypeString(t, func(p *types.Package) string { return "" })
		if _, ok := t.(*types.Pointer); ok {
			return fmt.Sprintf("%s.(%s).%s", pkg, ts, name)
		}
		return fmt.Sprintf("%s.(%s).%s", pkg, ts, name)
	}
	if len(fn.TypeArgs()) > 0 {
		// name already includes type args, with full paths; shorten
		base := fn.Origin().Name()
		var as []string
		for _, ta := range fn.TypeArgs() {
			as = append(as, types.TypeString(ta, func(p *types.Package) string { return p.Name() }))
		}
		name = base + "[" + strings.Join(as, ",") + "]"
	}
	return pkg + "." + name
}

func (p *Program) FuncNames() []string {
	var ns []string
	for n := range p.funcs {
		ns = append(ns, n)
	}
	sort.Strings(ns)
	return ns
}

// lookupType finds a named type by "pkgname.Type" among all loaded packages.
func (p *Program) lookupType(q string) types.Type {
	if strings.HasPrefix(q, "[]") {
		if et := p.lookupType(q[2:]); et != nil {
			return types.NewSlice(et)
		}
		return nil
	}
	ptr := 0
	for strings.HasPrefix(q, "*") {
		ptr++
		q = q[1:]
	}
	var t types.Type
	if b, ok := types.Universe.Lookup(q).(*types.TypeName); ok && q != "error" {
		t = b.Type()
	}
	switch q {
	case "int":
		t = types.Typ[types.Int]
	case "string":
		t = types.Typ[types.String]
	case "bool":
		t = types.Typ[types.Bool]
	case "error":
		t = types.Universe.Lookup("error").Type()
	default:
		if t != nil {
			break
		}
		i := strings.LastIndex(q, ".")
		if i < 0 {
			return nil
		}
		pn, tn := q[:i], q[i+1:]
		for _, sp := range p.SSA.AllPackages() {
			if sp.Pkg.Name() == pn || sp.Pkg.Path() == pn {
				if o := sp.Pkg.Scope().Lookup(tn); o != nil {
					if _, ok := o.(*types.TypeName); ok {
						t = o.Type()
						break
					}
				}
			}
		}
	}
	if t == nil {
		return nil
	}
	for ; ptr > 0; ptr-- {
		t = types.NewPointer(t)
	}
	return t
}

var typesInfoByPkg = map[*types.Package]*types.Info{}

func typesInfoFor(p *ssa.Package) *types.Info {
	return typesInfoByPkg[p.Pkg]
}

// loopOrdinals returns, for fn, the loop header blocks in source order of the
// for/range statement that produced them.
func identName(e ast.Expr) string {
	if id, ok := e.(*ast.Ident); ok {
		return id.Name
	}
	return ""
}
