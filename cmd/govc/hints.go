package main

import (
	"fmt"
	"strings"
	"encoding/json"
	"go/ast"
	"go/types"
	"os"
	"path/filepath"
	"sort"

	"golang.org/x/tools/go/ssa"
)

// Name hints make contracts robust against renamed variables. Contracts name
// parameters, results, captured variables and the locals a loop invariant needs.
// /verif/lib/locals.json (generated from the tree the contracts were written
// for, with `govc -hints`, and committed) records for every function under
// contract the position of each such name: parameters, results and captured
// variables by index, locals by (type, ordinal among the locals of that type in
// declaration order). When a name used by a contract no longer exists in the
// function, it is re-bound to the variable now at the recorded position. A wrong
// re-binding can only make obligations fail (invariants are checked, never
// assumed unchecked), so the hints are not part of the trusted base.

type localHint struct {
	Name string `json:"name"`
	Type string `json:"type"`
	Ord  int    `json:"ord"`
}

type funcHints struct {
	Params   []string    `json:"params"`
	Results  []string    `json:"results"`
	FreeVars []string    `json:"freevars"`
	// FreeVarTypes: the types of the captured variables (a closure that captures
	// the same variables in another order, or under other names, is re-bound by type)
	FreeVarTypes []string `json:"freevartypes,omitempty"`
	Locals   []localHint `json:"locals"`
	// RangeVars: the key / value variables of the N-th loop (source order) when
	// it is a range loop. If the loop is later rewritten without them (`for i :=
	// range s` <-> `for _, x := range s` <-> an index loop), a contract that
	// names them is read as rangeindexN + 1 / ranged(N)[rangeindexN + 1].
	RangeVars []rangeHint `json:"rangevars,omitempty"`
	// Defs: locals assigned exactly once from a selector path (min :=
	// a.cfg.MinInterval). If such a temporary is later removed, a contract that
	// names it is read as that path.
	Defs map[string]string `json:"defs,omitempty"`
	// Closures: fingerprints of the function literals of this function, in
	// source order (closures.go).
	Closures []closureHint `json:"closures,omitempty"`
}

type rangeHint struct {
	Loop  int    `json:"loop"`
	Key   string `json:"key,omitempty"`
	Value string `json:"value,omitempty"`
	Map   bool   `json:"map,omitempty"` // the loop ranges over a map
}

var nameHints map[string]*funcHints

func loadHints(verif string) {
	nameHints = map[string]*funcHints{}
	b, err := os.ReadFile(filepath.Join(verif, "lib", "locals.json"))
	if err != nil {
		return
	}
	_ = json.Unmarshal(b, &nameHints)
}

func hintsOf(fn *ssa.Function) *funcHints {
	h := &funcHints{}
	for _, p := range fn.Params {
		h.Params = append(h.Params, p.Name())
	}
	if rs := fn.Signature.Results(); rs != nil {
		for i := 0; i < rs.Len(); i++ {
			h.Results = append(h.Results, rs.At(i).Name())
		}
	}
	for _, fv := range fn.FreeVars {
		h.FreeVars = append(h.FreeVars, fv.Name())
		h.FreeVarTypes = append(h.FreeVarTypes, types.TypeString(fv.Type(), nil))
	}
	h.Closures = closureHintsOf(fn)
	syn := fn.Syntax()
	var info *types.Info
	if fn.Pkg != nil {
		info = typesInfoFor(fn.Pkg)
	} else if o := fn.Origin(); o != nil && o.Pkg != nil {
		info = typesInfoFor(o.Pkg)
	}
	if syn == nil || info == nil {
		return h
	}
	var body *ast.BlockStmt
	switch s := syn.(type) {
	case *ast.FuncDecl:
		body = s.Body
	case *ast.FuncLit:
		body = s.Body
	}
	if body == nil {
		return h
	}
	type lv struct {
		pos  int
		name string
		typ  string
	}
	var ls []lv
	seen := map[types.Object]bool{}
	ast.Inspect(body, func(n ast.Node) bool {
		if _, ok := n.(*ast.FuncLit); ok {
			return false // a nested closure's locals belong to the closure
		}
		id, ok := n.(*ast.Ident)
		if !ok || id.Name == "_" {
			return true
		}
		if v, ok := info.Defs[id].(*types.Var); ok && !v.IsField() && !seen[v] {
			seen[v] = true
			ls = append(ls, lv{int(id.Pos()), id.Name, types.TypeString(v.Type(), nil)})
		}
		return true
	})
	// loops in source order (the ordinals contracts use) and single-definition temporaries
	loopN := 0
	assigned := map[string]int{}
	defs := map[string]string{}
	var selPath func(e ast.Expr) string
	selPath = func(e ast.Expr) string {
		switch e := e.(type) {
		case *ast.Ident:
			return e.Name
		case *ast.SelectorExpr:
			if b := selPath(e.X); b != "" {
				return b + "." + e.Sel.Name
			}
		case *ast.ParenExpr:
			return selPath(e.X)
		}
		return ""
	}
	ast.Inspect(body, func(n ast.Node) bool {
		switch s := n.(type) {
		case *ast.FuncLit:
			return false
		case *ast.ForStmt:
			loopN++
		case *ast.RangeStmt:
			loopN++
			rh := rangeHint{Loop: loopN, Key: identName(s.Key), Value: identName(s.Value)}
			if tv, ok := info.Types[s.X]; ok && tv.Type != nil {
				if _, isMap := tv.Type.Underlying().(*types.Map); isMap {
					rh.Map = true
				}
			}
			if rh.Key == "_" {
				rh.Key = ""
			}
			if rh.Value == "_" {
				rh.Value = ""
			}
			if s.Tok.String() == ":=" && (rh.Key != "" || rh.Value != "") {
				h.RangeVars = append(h.RangeVars, rh)
			}
		case *ast.AssignStmt:
			for i, l := range s.Lhs {
				if id, ok := l.(*ast.Ident); ok && id.Name != "_" {
					assigned[id.Name]++
					if len(s.Lhs) == len(s.Rhs) {
						if p := selPath(s.Rhs[i]); strings.Contains(p, ".") {
							defs[id.Name] = p
						}
					}
				}
			}
		case *ast.ValueSpec:
			for i, id := range s.Names {
				assigned[id.Name]++
				if len(s.Values) == len(s.Names) {
					if p := selPath(s.Values[i]); strings.Contains(p, ".") {
						defs[id.Name] = p
					}
				}
			}
		case *ast.IncDecStmt:
			if id, ok := s.X.(*ast.Ident); ok {
				assigned[id.Name] += 2
			}
		}
		return true
	})
	for n, p := range defs {
		if assigned[n] == 1 {
			if h.Defs == nil {
				h.Defs = map[string]string{}
			}
			h.Defs[n] = p
		}
	}
	sort.Slice(ls, func(i, j int) bool { return ls[i].pos < ls[j].pos })
	cnt := map[string]int{}
	for _, l := range ls {
		h.Locals = append(h.Locals, localHint{l.name, l.typ, cnt[l.typ]})
		cnt[l.typ]++
	}
	return h
}

// nameAliases maps a name recorded in the hints that no longer exists in fn to
// the name of the variable now at the recorded position.
func nameAliases(name string, fn *ssa.Function) map[string]string {
	if fn == nil {
		return nil
	}
	old := nameHints[name]
	if old == nil {
		if o := fn.Origin(); o != nil {
			old = nameHints[shortName(o)]
		}
	}
	if old == nil {
		return nil
	}
	cur := hintsOf(fn)
	have := map[string]bool{}
	for _, l := range [][]string{cur.Params, cur.Results, cur.FreeVars} {
		for _, n := range l {
			have[n] = true
		}
	}
	for _, l := range cur.Locals {
		have[l.Name] = true
	}
	al := map[string]string{}
	byIndex := func(o, c []string) {
		if len(o) != len(c) {
			return
		}
		for i := range o {
			if o[i] != c[i] && o[i] != "" && o[i] != "_" && !have[o[i]] {
				al[o[i]] = c[i]
			}
		}
	}
	byIndex(old.Params, cur.Params)
	byIndex(old.Results, cur.Results)
	if len(old.FreeVarTypes) == len(old.FreeVars) && len(cur.FreeVarTypes) == len(cur.FreeVars) {
		// captured variables: by type (capture order follows first use and changes
		// with harmless edits); a renamed variable is the only one of its type that
		// is new, standing for the only one of that type that is gone
		curNames := map[string]bool{}
		for _, n := range cur.FreeVars {
			curNames[n] = true
		}
		oldNames := map[string]bool{}
		for _, n := range old.FreeVars {
			oldNames[n] = true
		}
		for i, o := range old.FreeVars {
			if curNames[o] || have[o] {
				continue
			}
			cand, goneSame := "", 0
			for j, o2 := range old.FreeVars {
				if !curNames[o2] && old.FreeVarTypes[j] == old.FreeVarTypes[i] {
					goneSame++
				}
			}
			n := 0
			for j, cn := range cur.FreeVars {
				if !oldNames[cn] && cur.FreeVarTypes[j] == old.FreeVarTypes[i] {
					cand = cn
					n++
				}
			}
			if n == 1 && goneSame == 1 {
				al[o] = cand
			}
		}
	} else {
		byIndex(old.FreeVars, cur.FreeVars)
	}
	oldNames := map[string]bool{}
	for _, l := range old.Locals {
		oldNames[l.Name] = true
	}
	for _, l := range old.Locals {
		if have[l.Name] {
			continue
		}
		for _, c := range cur.Locals {
			if c.Type == l.Type && c.Ord == l.Ord && !oldNames[c.Name] {
				al[l.Name] = c.Name
			}
		}
	}
	return al
}

func writeHints(p *Program, cs *Contracts, verif string) error {
	out := map[string]*funcHints{}
	for name := range cs.Funcs {
		if fn := p.funcs[name]; fn != nil {
			out[name] = hintsOf(fn)
			// the enclosing functions of a closure under contract record their literals too
			for par := fn.Parent(); par != nil; par = par.Parent() {
				if _, ok := out[shortName(par)]; !ok {
					out[shortName(par)] = hintsOf(par)
				}
			}
		}
	}
	b, err := json.MarshalIndent(out, "", " ")
	if err != nil {
		return err
	}
	return os.WriteFile(filepath.Join(verif, "lib", "locals.json"), b, 0o644)
}

// vanishedName: a contract names a local that no longer exists and that was not
// renamed (no variable at its recorded position). If it was a range variable or
// a single-definition temporary, return the spec expression it stood for.
func vanishedName(fnName string, fn *ssa.Function, name string) string {
	if fn == nil {
		return ""
	}
	old := nameHints[fnName]
	if old == nil {
		if o := fn.Origin(); o != nil {
			old = nameHints[shortName(o)]
		}
	}
	if old == nil {
		return ""
	}
	for _, r := range old.RangeVars {
		if r.Map {
			if r.Value == name {
				return fmt.Sprintf("rangemap(%d)[rangekey(%d)]", r.Loop, r.Loop)
			}
			if r.Key == name {
				return fmt.Sprintf("rangekey(%d)", r.Loop)
			}
			continue
		}
		if r.Value == name {
			return fmt.Sprintf("ranged(%d)[rangeindex%d + 1]", r.Loop, r.Loop)
		}
		if r.Key == name {
			return fmt.Sprintf("(rangeindex%d + 1)", r.Loop)
		}
	}
	if p, ok := old.Defs[name]; ok {
		return p
	}
	return ""
}
