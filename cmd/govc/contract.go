package main

import (
	"fmt"
	"os"
	"path/filepath"
	"regexp"
	"sort"
	"strconv"
	"strings"
)

type Clause struct {
	Kind  string // requires ensures invariant assert assume
	Label string
	Tags  []string
	Src   string
	Expr  SExpr
	Where string // file:line
}

func (c *Clause) HasTag(t string) bool {
	for _, x := range c.Tags {
		if x == t {
			return true
		}
	}
	return false
}

type GhostUpdate struct {
	Name string
	Expr SExpr
	Src  string
}

type AtClause struct {
	What    string // call send recv
	Pattern string
	Binders []string
	Results []string
	When    SExpr
	Asserts []*Clause
	Assumes []*Clause
	Updates []GhostUpdate
	Where   string
	Used    bool
}

type LoopSpec struct {
	Invariants []*Clause
	Modifies   []string
}

type FuncContract struct {
	Name      string
	Pkg       string
	Kind      string // func iface funcfield lib
	Params    []string
	Results   []string
	Requires  []*Clause
	Ensures   []*Clause
	Assigns   []string
	Loops     map[int]*LoopSpec
	Ats       []*AtClause
	Trusted   bool
	Opts      map[string]string
	Where     string
	LocalGhost map[string]string // name -> sort
}

type Macro struct {
	Name   string
	Params []string
	Body   SExpr
	Src    string
}

type Lemma struct {
	Name  string
	Tags  []string
	Expr  SExpr
	Src   string
	Where string
}

type GhostVar struct {
	Name string
	Sort string
	Init string // optional SMT initial value
}

type Contracts struct {
	Funcs  map[string]*FuncContract // by short name (pkg.Name)
	Macros map[string]*Macro
	Lemmas []*Lemma
	Ghosts map[string]*GhostVar
	Consts map[string]string // spec constants name -> SMT term
	Order  []string
}

var (
	reHeadFunc  = regexp.MustCompile(`^(func|iface|funcfield|funcparam|funcvalue|lib)\s+(\S+?)(\(([^)]*)\))?\s*(\(([^)]*)\))?\s*$`)
	reClause    = regexp.MustCompile(`^(requires|ensures|assert|assume)\s+(\w+)\s*(\[([^\]]*)\])?\s*:\s*(.*)$`)
	reLoopInv   = regexp.MustCompile(`^loop\s+(\d+)\s+invariant\s+(\w+)\s*(\[([^\]]*)\])?\s*:\s*(.*)$`)
	reLoopMod   = regexp.MustCompile(`^loop\s+(\d+)\s+modifies\s+(.*)$`)
	reAt        = regexp.MustCompile(`^at\s+(call|send|trysend|recv|close|loopenter|return)\s+(\S+?)(\(([^)]*)\))?\s*(\(([^)]*)\))?\s*(when\s+(.*?))?\s*:\s*(.*)$`)
	reMacro     = regexp.MustCompile(`^macro\s+(\w+)\(([^)]*)\)\s*=\s*(.*)$`)
	reLemma     = regexp.MustCompile(`^lemma\s+(\w+)\s*(\[([^\]]*)\])?\s*:\s*(.*)$`)
	reGhost     = regexp.MustCompile(`^ghost\s+var\s+(\w+)\s+(.+?)(\s*=\s*(.*))?$`)
	reGhostLoc  = regexp.MustCompile(`^ghost\s+local\s+(\w+)\s+(.+)$`)
	reConst     = regexp.MustCompile(`^const\s+(\w+)\s*=\s*(.*)$`)
	reGhostUpd  = regexp.MustCompile(`^ghost\.(\w+)\s*=\s*(.*)$`)
	reOpt       = regexp.MustCompile(`^opt\s+(\w+)\s*(.*)$`)
)

func splitList(s string) []string {
	var out []string
	for _, x := range strings.Split(s, ",") {
		x = strings.TrimSpace(x)
		if x != "" {
			out = append(out, x)
		}
	}
	return out
}

// splitTop splits at commas that are not nested in parentheses or quotes.
func splitTop(s string) []string {
	var out []string
	depth, start, inq := 0, 0, false
	for i, c := range s {
		switch {
		case c == '"':
			inq = !inq
		case inq:
		case c == '(':
			depth++
		case c == ')':
			depth--
		case c == ',' && depth == 0:
			if t := strings.TrimSpace(s[start:i]); t != "" {
				out = append(out, t)
			}
			start = i + 1
		}
	}
	if t := strings.TrimSpace(s[start:]); t != "" {
		out = append(out, t)
	}
	return out
}

func NewContracts() *Contracts {
	return &Contracts{Funcs: map[string]*FuncContract{}, Macros: map[string]*Macro{},
		Ghosts: map[string]*GhostVar{}, Consts: map[string]string{}}
}

// parseContractLines consumes the //@ lines of one file. pkg is the default
// package name used to qualify unqualified function names.
func (cs *Contracts) parseContractLines(pkg, file string, lines []string, trusted bool) error {
	var cur *FuncContract
	// join continuation lines
	type ln struct {
		s  string
		no int
	}
	var ls []ln
	for i, raw := range lines {
		t := strings.TrimSpace(raw)
		if !strings.HasPrefix(t, "//@") {
			continue
		}
		t = strings.TrimSpace(t[3:])
		if t == "" {
			continue
		}
		// strip trailing // comments (outside strings): only " //" preceded by space
		if k := strings.Index(t, " // "); k >= 0 && !strings.Contains(t[:k], `"`) {
			t = strings.TrimSpace(t[:k])
		}
		if strings.HasPrefix(t, "+") && len(ls) > 0 {
			ls[len(ls)-1].s += " " + strings.TrimSpace(t[1:])
			continue
		}
		ls = append(ls, ln{t, i + 1})
	}
	qual := func(n string) string {
		if strings.Contains(n, ".") && !strings.HasPrefix(n, "(") {
			// already qualified like pkg.Name or pkg.(*T).M
			head := n[:strings.Index(n, ".")]
			if !strings.ContainsAny(head, "(*)") {
				return n
			}
		}
		return pkg + "." + n
	}
	for _, l := range ls {
		where := fmt.Sprintf("%s:%d", filepath.Base(file), l.no)
		mkClause := func(kind, label, tags, src string) (*Clause, error) {
			e, err := parseSpec(src)
			if err != nil {
				return nil, fmt.Errorf("%s: %v", where, err)
			}
			return &Clause{Kind: kind, Label: label, Tags: splitList(tags), Src: src, Expr: e, Where: where}, nil
		}
		if m := reHeadFunc.FindStringSubmatch(l.s); m != nil {
			name := m[2]
			if m[1] == "func" {
				name = qual(name)
			}
			cur = &FuncContract{Name: name, Pkg: pkg, Kind: m[1], Params: splitList(m[4]), Results: splitList(m[6]),
				Loops: map[int]*LoopSpec{}, Trusted: trusted || m[1] != "func", Opts: map[string]string{}, Where: where,
				LocalGhost: map[string]string{}}
			key := name
			if m[1] != "func" && m[1] != "lib" && m[1] != "funcvalue" {
				key = m[1] + ":" + name
			}
			if _, dup := cs.Funcs[key]; dup {
				return fmt.Errorf("%s: duplicate contract for %s", where, key)
			}
			cs.Funcs[key] = cur
			cs.Order = append(cs.Order, key)
			continue
		}
		if m := reMacro.FindStringSubmatch(l.s); m != nil {
			e, err := parseSpec(m[3])
			if err != nil {
				return fmt.Errorf("%s: %v", where, err)
			}
			cs.Macros[m[1]] = &Macro{Name: m[1], Params: splitList(m[2]), Body: e, Src: m[3]}
			continue
		}
		if m := reLemma.FindStringSubmatch(l.s); m != nil {
			e, err := parseSpec(m[4])
			if err != nil {
				return fmt.Errorf("%s: %v", where, err)
			}
			cs.Lemmas = append(cs.Lemmas, &Lemma{Name: m[1], Tags: splitList(m[3]), Expr: e, Src: m[4], Where: where})
			cur = nil
			continue
		}
		if m := reGhostLoc.FindStringSubmatch(l.s); m != nil && cur != nil {
			cur.LocalGhost[m[1]] = strings.TrimSpace(m[2])
			continue
		}
		if m := reGhost.FindStringSubmatch(l.s); m != nil {
			cs.Ghosts[m[1]] = &GhostVar{Name: m[1], Sort: strings.TrimSpace(m[2]), Init: strings.TrimSpace(m[4])}
			continue
		}
		if m := reConst.FindStringSubmatch(l.s); m != nil {
			cs.Consts[m[1]] = strings.TrimSpace(m[2])
			continue
		}
		if cur == nil {
			return fmt.Errorf("%s: clause outside a contract: %s", where, l.s)
		}
		if m := reLoopInv.FindStringSubmatch(l.s); m != nil {
			n, _ := strconv.Atoi(m[1])
			c, err := mkClause("invariant", m[2], m[4], m[5])
			if err != nil {
				return err
			}
			if cur.Loops[n] == nil {
				cur.Loops[n] = &LoopSpec{}
			}
			cur.Loops[n].Invariants = append(cur.Loops[n].Invariants, c)
			continue
		}
		if m := reLoopMod.FindStringSubmatch(l.s); m != nil {
			n, _ := strconv.Atoi(m[1])
			if cur.Loops[n] == nil {
				cur.Loops[n] = &LoopSpec{}
			}
			cur.Loops[n].Modifies = append(cur.Loops[n].Modifies, splitList(m[2])...)
			continue
		}
		if m := reAt.FindStringSubmatch(l.s); m != nil {
			at := &AtClause{What: m[1], Pattern: m[2], Binders: splitList(m[4]), Results: splitList(m[6]), Where: where}
			if m[8] != "" {
				e, err := parseSpec(m[8])
				if err != nil {
					return fmt.Errorf("%s: %v", where, err)
				}
				at.When = e
			}
			for _, part := range strings.Split(m[9], " ; ") {
				part = strings.TrimSpace(part)
				if part == "" {
					continue
				}
				if g := reGhostUpd.FindStringSubmatch(part); g != nil {
					e, err := parseSpec(g[2])
					if err != nil {
						return fmt.Errorf("%s: %v", where, err)
					}
					at.Updates = append(at.Updates, GhostUpdate{Name: g[1], Expr: e, Src: part})
					continue
				}
				if c := reClause.FindStringSubmatch(part); c != nil && (c[1] == "assert" || c[1] == "assume") {
					cl, err := mkClause(c[1], c[2], c[4], c[5])
					if err != nil {
						return err
					}
					if c[1] == "assert" {
						at.Asserts = append(at.Asserts, cl)
					} else {
						if !trusted {
							return fmt.Errorf("%s: assume is only allowed in /verif/lib specs", where)
						}
						at.Assumes = append(at.Assumes, cl)
					}
					continue
				}
				return fmt.Errorf("%s: bad at-clause part %q", where, part)
			}
			cur.Ats = append(cur.Ats, at)
			continue
		}
		if m := reClause.FindStringSubmatch(l.s); m != nil {
			c, err := mkClause(m[1], m[2], m[4], m[5])
			if err != nil {
				return err
			}
			switch m[1] {
			case "requires":
				cur.Requires = append(cur.Requires, c)
			case "ensures":
				cur.Ensures = append(cur.Ensures, c)
			default:
				return fmt.Errorf("%s: %s not allowed at function level", where, m[1])
			}
			continue
		}
		if strings.HasPrefix(l.s, "assigns ") {
			cur.Assigns = append(cur.Assigns, splitTop(strings.TrimPrefix(l.s, "assigns "))...)
			continue
		}
		if m := reOpt.FindStringSubmatch(l.s); m != nil {
			cur.Opts[m[1]] = strings.TrimSpace(m[2])
			continue
		}
		return fmt.Errorf("%s: cannot parse contract line: %s", where, l.s)
	}
	return nil
}

// loadContracts reads contracts from the repo (comment-only *_verif.go files,
// untrusted = to be verified) and from /verif/lib + /verif/spec (trusted lib
// contracts, macros and lemmas).
func loadContracts(p *Program, verifDir string) (*Contracts, error) {
	cs := NewContracts()
	var keys []string
	for k := range p.ContractFiles {
		keys = append(keys, k)
	}
	sort.Strings(keys)
	for _, k := range keys {
		parts := strings.SplitN(k, "|", 2)
		if err := cs.parseContractLines(parts[0], parts[1], p.ContractFiles[k], false); err != nil {
			return nil, err
		}
	}
	for _, dir := range []string{"lib", "spec"} {
		files, _ := filepath.Glob(filepath.Join(verifDir, dir, "*.spec"))
		sort.Strings(files)
		for _, f := range files {
			b, err := os.ReadFile(f)
			if err != nil {
				return nil, err
			}
			if err := cs.parseContractLines("", f, strings.Split(string(b), "\n"), dir == "lib"); err != nil {
				return nil, err
			}
		}
	}
	return cs, nil
}
