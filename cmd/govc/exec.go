package main

import (
	"fmt"
	"os"
	"runtime/debug"
	"go/ast"
	"go/constant"
	"go/token"
	"go/types"
	"math/big"
	"sort"
	"strings"

	"golang.org/x/tools/go/ssa"
)

type Obligation struct {
	Name     string
	Func     string
	Kind     string
	Label    string
	Tags     []string
	Aux      bool
	Prefix   int // number of body lines visible
	Guard    string
	Goal     string
	Src      string
	Where    string
	Cover    bool // expects sat
	Diag     bool // diagnostic cover (GOVC_DEADBLOCKS=1): reported as a note, never a verdict
	Enc      *Enc
	Result   *SolveResult
	Inputs   map[string]string // name -> SMT term, for model extraction
}

type loopInfo struct {
	header *ssa.BasicBlock
	body   map[*ssa.BasicBlock]bool
	latches []*ssa.BasicBlock
	ordinal int
	spec   *LoopSpec
}

type Exec struct {
	enc   *Enc
	fn    *ssa.Function
	name  string
	fc    *FuncContract
	vals  map[ssa.Value]Val
	reach map[*ssa.BasicBlock]string
	exit  map[*ssa.BasicBlock]*State
	edge  map[[2]int][]string // (pred idx, succ idx) -> conds (one per slot)
	entry *State
	st    *State
	cur   *ssa.BasicBlock
	curIdx int
	guard string
	obls  []*Obligation
	loops map[*ssa.BasicBlock]*loopInfo
	brk0  string
	safetyTags []string
	localGhost map[string]string
	err   error
	inputs map[string]string
	siteCount map[string]int
	retSites int
	iterMap map[*ssa.Range]Val
	requiresPrefix int
	curPassed []string
	curLits map[string]string
	noFacts bool
	typeArgFn *ssa.Function
	loopPreserve map[*loopInfo]map[string]int
	refined *FuncContract
	refBinders map[string]Val
	undef map[string]Val
	retCount int
	alias map[string]string
	parent *Exec // inlined helper: the calling activation
	inlineDepth int
	inlined bool
	entryGuard string
	rets []inlineRet
	paramArgs map[*ssa.Parameter]ssa.Value
	resolving map[string]bool
	loopBase int // inlined helper: its loops continue the caller's loop numbering from here
	srcNames map[string]bool // names of the function's own variables (hasSourceName)
	recvOK Val // comma-ok result of the receive whose hooks are running
	retGuards []string // path conditions of the return sites (vacuity guard: some return must be reachable)
	inlineLoopBase map[*ssa.Function]int
}

type unsupported struct{ msg string }

func (x *Exec) fail(f string, a ...any) {
	if os.Getenv("GOVC_DEBUG") != "" {
		fmt.Fprintf(os.Stderr, "FAIL: "+f+"\n", a...)
		debug.PrintStack()
	}
	panic(unsupported{fmt.Sprintf(f, a...)})
}

func (x *Exec) pos(p token.Pos) string {
	if !p.IsValid() {
		return ""
	}
	ps := x.fn.Prog.Fset.Position(p)
	return fmt.Sprintf("%s:%d", shortPath(ps.Filename), ps.Line)
}

func shortPath(f string) string {
	if i := strings.Index(f, "/internal/"); i >= 0 {
		return f[i+1:]
	}
	return f
}

func (x *Exec) oblige(kind, label string, tags []string, aux bool, goal, src, where string) *Obligation {
	site := ""
	base := fmt.Sprintf("%s/%s/%s", x.name, kind, label)
	x.siteCount[base]++
	if n := x.siteCount[base]; n > 1 {
		site = fmt.Sprintf("@%d", n)
	}
	o := &Obligation{Name: base + site, Func: x.name, Kind: kind, Label: label, Tags: tags, Aux: aux,
		Prefix: len(x.enc.body), Guard: x.guard, Goal: goal, Src: src, Where: where, Enc: x.enc, Inputs: x.inputs}
	x.obls = append(x.obls, o)
	return o
}

func (x *Exec) safety(label, goal, src string, p token.Pos) {
	if goal == "true" {
		return
	}
	x.oblige("safety", label, x.safetyTags, len(x.safetyTags) == 0, goal, src, x.pos(p))
	// after the check, execution continues assuming it passed
	x.enc.assume(x.guard, goal)
}

// ---------------------------------------------------------------------------

func newExec(enc *Enc, fn *ssa.Function, name string, fc *FuncContract) *Exec {
	return &Exec{enc: enc, fn: fn, name: name, fc: fc, vals: map[ssa.Value]Val{},
		reach: map[*ssa.BasicBlock]string{}, exit: map[*ssa.BasicBlock]*State{},
		edge: map[[2]int][]string{}, loops: map[*ssa.BasicBlock]*loopInfo{},
		localGhost: map[string]string{}, inputs: map[string]string{}, siteCount: map[string]int{}, iterMap: map[*ssa.Range]Val{}, undef: map[string]Val{},
		alias: nameAliases(name, fn)}
}

func (x *Exec) findLoops() {
	fn := x.fn
	for _, b := range fn.Blocks {
		for _, s := range b.Succs {
			if s.Dominates(b) {
				li := x.loops[s]
				if li == nil {
					li = &loopInfo{header: s, body: map[*ssa.BasicBlock]bool{s: true}}
					x.loops[s] = li
				}
				li.latches = append(li.latches, b)
				// natural loop body
				stack := []*ssa.BasicBlock{b}
				for len(stack) > 0 {
					n := stack[len(stack)-1]
					stack = stack[:len(stack)-1]
					if li.body[n] {
						continue
					}
					li.body[n] = true
					stack = append(stack, n.Preds...)
				}
			}
		}
	}
	var hs []*ssa.BasicBlock
	for h := range x.loops {
		hs = append(hs, h)
	}
	sort.Slice(hs, func(i, j int) bool { return hs[i].Index < hs[j].Index })
	// Loop ordinals follow source order. A helper without a contract that
	// contains loops and is called from here takes the next ordinals at its
	// call site: when a loop is moved into a helper ("extract function"), the
	// invariants the contract gives for that loop still find it. Only done when
	// the contract has loop clauses left over for the helper's loops.
	isHeader := map[*ssa.BasicBlock]bool{}
	for _, h := range hs {
		isHeader[h] = true
	}
	n := x.loopBase
	for _, b := range fn.Blocks {
		if isHeader[b] {
			n++
			x.loops[b].ordinal = n
			if x.fc != nil {
				x.loops[b].spec = x.fc.Loops[n]
			}
		}
		if x.fc == nil {
			continue
		}
		for _, in := range b.Instrs {
			ci, ok := in.(ssa.CallInstruction)
			if !ok {
				continue
			}
			callee := ci.Common().StaticCallee()
			if callee == nil || ci.Common().IsInvoke() {
				continue
			}
			if fcc, _, _ := x.calleeContract(ci.Common()); fcc != nil {
				continue
			}
			k := countLoops(callee)
			if k == 0 || !x.inlinableLoops(callee, true) {
				continue
			}
			have := true
			for j := 1; j <= k; j++ {
				if x.fc.Loops[n+j] == nil {
					have = false
				}
			}
			if !have {
				continue
			}
			if x.inlineLoopBase == nil {
				x.inlineLoopBase = map[*ssa.Function]int{}
			}
			if _, seen := x.inlineLoopBase[callee]; !seen {
				x.inlineLoopBase[callee] = n
				n += k
			}
		}
	}
}

func (x *Exec) isBackEdge(p, b *ssa.BasicBlock) bool { return b.Dominates(p) }

func (x *Exec) topoOrder() []*ssa.BasicBlock {
	var order []*ssa.BasicBlock
	seen := map[*ssa.BasicBlock]bool{}
	var visit func(b *ssa.BasicBlock)
	visit = func(b *ssa.BasicBlock) {
		if seen[b] {
			return
		}
		seen[b] = true
		for _, s := range b.Succs {
			if !x.isBackEdge(b, s) {
				visit(s)
			}
		}
		order = append(order, b)
	}
	visit(x.fn.Blocks[0])
	for i, j := 0, len(order)-1; i < j; i, j = i+1, j-1 {
		order[i], order[j] = order[j], order[i]
	}
	return order
}

// run symbolically executes the function and collects obligations.
func (x *Exec) run() (err error) {
	defer func() {
		if r := recover(); r != nil {
			if u, ok := r.(unsupported); ok {
				err = fmt.Errorf("%s: outside subset: %s", x.name, u.msg)
				return
			}
			panic(r)
		}
	}()
	e := x.enc
	if len(x.fn.Blocks) == 0 {
		return fmt.Errorf("%s: no body", x.name)
	}
	if x.fc != nil {
		for k, v := range x.fc.LocalGhost {
			x.localGhost[k] = v
		}
		if t, ok := x.fc.Opts["safety"]; ok {
			x.safetyTags = splitList(strings.Trim(t, "[]"))
		}
	}
	x.findLoops()
	st := &State{H: map[string]string{}}
	e.heapSort["brk"] = "Int"
	x.brk0 = e.heapGet(st, "brk")
	st.H["brk"] = x.brk0
	e.assume("", fmt.Sprintf("(> %s 0)", x.brk0))
	for name, srt := range x.localGhost {
		k := "L:" + name
		e.heapSort[k] = srt
		st.H[k] = e.zeroSort(srt, nil)
	}
	// parameters
	for i, p := range x.fn.Params {
		v := x.freshVal("p_"+p.Name(), p.Type(), x.brk0, "true")
		x.vals[p] = v
		x.inputs[p.Name()] = v.T
		if i == 0 && x.fn.Signature.Recv() != nil {
			if _, ok := p.Type().Underlying().(*types.Pointer); ok {
				e.assume("", fmt.Sprintf("(> %s 0)", v.T))
				e.assumptionsUsed["method receivers are non-nil"] = true
			}
		}
	}
	for _, fv := range x.fn.FreeVars {
		// captured variable: a pointer to the cell
		v := x.freshVal("fv_"+fv.Name(), fv.Type(), x.brk0, "true")
		e.assume("", fmt.Sprintf("(> %s 0)", v.T))
		x.vals[fv] = v
		x.inputs["&"+fv.Name()] = v.T
	}
	x.entry = st.clone()
	x.st = st
	// requires
	x.cur = x.fn.Blocks[0]
	x.guard = "true"
	x.refined = nil
	if x.fc != nil {
		if k, ok := x.fc.Opts["refines"]; ok {
			rc := e.cs.Funcs[k]
			if rc == nil {
				x.fail("refines: unknown contract %s", k)
			}
			x.refined = rc
			binders := map[string]Val{}
			for i, pn := range rc.Params {
				if i < len(x.fn.Params) {
					v := x.vals[x.fn.Params[i]]
					if i == 0 && strings.HasPrefix(k, "iface:") {
						// the interface value the method is invoked on holds this receiver
						pt := x.fn.Params[0].Type()
						v = Val{T: fmt.Sprintf("(mk-iface %d %s)", e.tagOf(pt), x.boxPayload(v, pt)), Sort: "Iface"}
					}
					binders[pn] = v
				}
			}
			x.refBinders = binders
			for _, c := range rc.Requires {
				env := &Env{x: x, st: x.st, old: x.entry, binders: binders, bound: map[string]Val{}, closed: true}
				e.assume("", x.evalBool(c.Expr, env, c))
			}
		}
		caps := map[string]bool{}
		for _, l := range splitList(x.fc.Opts["capture"]) {
			caps[l] = true
		}
		for _, c := range x.fc.Requires {
			t := x.evalBool(c.Expr, x.envAt(nil), c)
			if x.refined != nil && !caps[c.Label] {
				// the closure is only ever called through the refined contract:
				// its own precondition must follow from that contract's
				tags := splitList(strings.Trim(x.fc.Opts["refinetags"], "[]"))
				x.oblige("refine-pre", c.Label, tags, len(tags) == 0, t, c.Src, c.Where)
			}
			e.assume("", t)
		}
	}
	x.requiresPrefix = len(e.body)
	for _, b := range x.topoOrder() {
		x.execBlock(b)
	}
	if x.fc != nil {
		for _, at := range x.fc.Ats {
			if !at.Used {
				x.obls = append(x.obls, &Obligation{Name: x.name + "/bind/at-" + at.Pattern, Func: x.name, Kind: "bind",
					Label: "at-" + at.Pattern, Goal: "false", Guard: "true", Enc: e, Prefix: 0,
					Src: "at-clause matched no site: " + at.Pattern, Where: at.Where, Tags: clauseTags(at)})
			}
		}
	}
	return nil
}

func clauseTags(at *AtClause) []string {
	var ts []string
	for _, c := range at.Asserts {
		ts = append(ts, c.Tags...)
	}
	return ts
}

func (x *Exec) freshVal(name string, t types.Type, brk, guard string) Val {
	e := x.enc
	if tup, ok := t.(*types.Tuple); ok {
		var vs []Val
		for i := 0; i < tup.Len(); i++ {
			vs = append(vs, x.freshVal(fmt.Sprintf("%s_%d", name, i), tup.At(i).Type(), brk, guard))
		}
		return Val{Tup: vs, Sort: "Tuple", GT: t}
	}
	s := e.sortOf(t)
	n := e.fresh(name, s)
	for _, f := range e.typeFacts(n, t, brk, 0) {
		e.assume(guard, f)
	}
	return Val{T: n, Sort: s, GT: t}
}

func (x *Exec) edgeConds(p, b *ssa.BasicBlock) string {
	cs := x.edge[[2]int{p.Index, b.Index}]
	return or(cs...)
}

func (x *Exec) execBlock(b *ssa.BasicBlock) {
	e := x.enc
	var ins []*State
	var conds []string
	var preds []*ssa.BasicBlock
	if b.Index == 0 {
		ins = []*State{x.st}
		conds = []string{"true"}
		if x.inlined && x.entryGuard != "" {
			conds = []string{x.entryGuard}
		}
	} else {
		for _, p := range b.Preds {
			if x.isBackEdge(p, b) {
				continue
			}
			if x.exit[p] == nil {
				continue
			}
			c := x.edgeConds(p, b)
			if c == "false" {
				continue
			}
			dup := false
			for _, q := range preds {
				if q == p {
					dup = true
				}
			}
			if dup {
				continue
			}
			ins = append(ins, x.exit[p])
			conds = append(conds, c)
			preds = append(preds, p)
		}
	}
	if len(ins) == 0 {
		return // unreachable
	}
	r := or(conds...)
	if r != "true" {
		r = e.define(fmt.Sprintf("reach_b%d", b.Index), "Bool", r)
	}
	x.reach[b] = r
	x.guard = r
	x.cur = b
	x.st = e.mergeStates(ins, conds)
	li := x.loops[b]
	// phis
	phiVal := func(phi *ssa.Phi, only func(p *ssa.BasicBlock) bool) Val {
		var vs []Val
		var cs []string
		for i, p := range b.Preds {
			if !only(p) || x.exit[p] == nil {
				continue
			}
			c := x.edgeConds(p, b)
			if c == "false" {
				continue
			}
			vs = append(vs, x.val(phi.Edges[i]))
			cs = append(cs, c)
		}
		if len(vs) == 0 {
			x.fail("phi without reachable edges")
		}
		out := vs[len(vs)-1]
		for i := len(vs) - 2; i >= 0; i-- {
			out = x.iteVal(cs[i], vs[i], out)
		}
		return out
	}
	if li == nil {
		for _, in := range b.Instrs {
			phi, ok := in.(*ssa.Phi)
			if !ok {
				break
			}
			v := phiVal(phi, func(p *ssa.BasicBlock) bool { return true })
			v.GT = phi.Type()
			if v.Loc == nil && v.Tup == nil && v.T != "" && len(v.T) > 40 {
				v.T = e.define(phiName(phi), v.Sort, v.T)
			}
			x.vals[phi] = v
		}
	} else {
		x.loopEntry(li, phiVal)
	}
	for i, in := range b.Instrs {
		if _, ok := in.(*ssa.Phi); ok {
			continue
		}
		x.curIdx = i
		x.instr(in)
	}
	x.exit[b] = x.st
}

func phiName(phi *ssa.Phi) string {
	if phi.Comment != "" {
		return "phi_" + phi.Comment
	}
	return "phi"
}

func (x *Exec) iteVal(c string, a, b Val) Val {
	if a.Tup != nil {
		var vs []Val
		for i := range a.Tup {
			vs = append(vs, x.iteVal(c, a.Tup[i], b.Tup[i]))
		}
		return Val{Tup: vs, Sort: "Tuple", GT: a.GT}
	}
	if a.Loc != nil || b.Loc != nil {
		a, b = x.materialize(a), x.materialize(b)
	}
	return Val{T: ite(c, a.T, b.T), Sort: a.Sort, GT: a.GT}
}

// materialize turns an interior location into a plain pointer term.
func (x *Exec) materialize(v Val) Val {
	if v.Loc == nil {
		return v
	}
	l := v.Loc
	if len(l.Path) == 0 && l.Idx == "" {
		return Val{T: l.Ref, Sort: "Int", GT: v.GT}
	}
	// interior pointer: opaque term
	e := x.enc
	e.decl("(declare-fun iptr (Int Int Int) Int)")
	code := 0
	for _, p := range l.Path {
		code = code*31 + p.Field + 2
	}
	idx := "0"
	if l.Idx != "" {
		idx = l.Idx
	}
	e.note("%s: interior pointer escapes (modelled opaquely)", x.name)
	return Val{T: fmt.Sprintf("(iptr %s %s %d)", l.Ref, idx, code), Sort: "Int", GT: v.GT}
}

// loop entry: inv-init, havoc, assume invariants.
func (x *Exec) loopEntry(li *loopInfo, phiVal func(*ssa.Phi, func(*ssa.BasicBlock) bool) Val) {
	e := x.enc
	b := li.header
	outside := func(p *ssa.BasicBlock) bool { return !x.isBackEdge(p, b) }
	var phis []*ssa.Phi
	for _, in := range b.Instrs {
		if phi, ok := in.(*ssa.Phi); ok {
			phis = append(phis, phi)
		} else {
			break
		}
	}
	// inv-init with entry values
	for _, phi := range phis {
		x.vals[phi] = phiVal(phi, outside)
	}
	if li.spec == nil || len(li.spec.Invariants) == 0 {
		if x.fc != nil {
			x.fail("loop %d has no invariant", li.ordinal)
		}
		li.spec = &LoopSpec{}
	}
	if x.fc != nil {
		for _, at := range x.fc.Ats {
			if at.What == "loopenter" && at.Pattern == fmt.Sprint(li.ordinal) {
				at.Used = true
				x.applyUpdatesGuarded(at, map[string]Val{}, "true")
			}
		}
	}
	preLoop := x.st.clone()
	for _, c := range li.spec.Invariants {
		t := x.evalBool(c.Expr, x.envAt(nil), c)
		x.oblige("inv-init", fmt.Sprintf("loop%d.%s", li.ordinal, c.Label), c.Tags, len(c.Tags) == 0, t, c.Src, c.Where)
	}
	// havoc
	for _, phi := range phis {
		nm := "loop_" + phi.Comment
		if phi.Comment == "" {
			nm = "loop_phi"
		}
		x.vals[phi] = x.freshVal(nm, phi.Type(), "", x.guard)
	}
	mods := x.loopModset(li)
	brkPre := e.heapGet(preLoop, "brk")
	if _, all := mods["*"]; all {
		delete(mods, "*")
		// keys every havoc-everything callee preserves and nothing else in the loop modifies
		keep := map[string]string{}
		if lp := x.loopPreserve[li]; lp != nil {
			for k, n := range lp {
				if k != "#stars" && n == lp["#stars"] {
					if _, modified := mods[k]; !modified {
						keep[k] = e.heapGet(x.st, k)
					}
				}
			}
		}
		if len(keep) == 0 {
			e.note("%s: loop %d calls a function that may modify everything: all state havoced at the loop head", x.name, li.ordinal)
		}
		saved := map[string]string{}
		for k := range mods {
			saved[k] = mods[k]
		}
		x.havocAll()
		for k, v := range keep {
			x.st.H[k] = v
		}
		// keys the loop body itself writes are havoced without the locals exemption
		for k, mode := range saved {
			if mode == "any" && k != "brk" {
				if _, known := e.heapSort[k]; !known {
					continue // a component nothing has touched yet
				}
				if _, kept := keep[k]; !kept {
					e.heapHavoc(x.st, k)
				}
			}
		}
		mods = map[string]string{}
	}
	var keys []string
	for k := range mods {
		keys = append(keys, k)
	}
	sort.Strings(keys)
	for _, k := range keys {
		if k == "brk" {
			continue
		}
		if _, known := e.heapSort[k]; !known {
			continue // a component nothing has touched yet: its first read is unconstrained anyway
		}
		old := e.heapGet(preLoop, k)
		nw := e.heapHavoc(x.st, k)
		if mods[k] == "new" {
			e.assume("", fmt.Sprintf("(forall ((r Int)) (! (=> (< r %s) (= (select %s r) (select %s r))) :pattern ((select %s r))))", brkPre, nw, old, nw))
		}
	}
	if _, ok := mods["brk"]; ok {
		nb := e.heapHavoc(x.st, "brk")
		e.assume("", fmt.Sprintf("(>= %s %s)", nb, brkPre))
	}
	// pointer-ish facts on havoced phis
	for _, phi := range phis {
		v := x.vals[phi]
		if v.Tup == nil {
			for _, f := range e.typeFacts(v.T, phi.Type(), e.heapGet(x.st, "brk"), 0) {
				e.assume(x.guard, f)
			}
		}
	}
	for _, c := range li.spec.Invariants {
		t := x.evalBool(c.Expr, x.envAt(nil), c)
		e.assume(x.guard, t)
	}
	// `opt counter i`: an unbounded iteration counter is assumed not to reach 2^62
	if x.fc != nil {
		for _, cn := range splitList(x.fc.Opts["counter"]) {
			if a, ok := x.alias[cn]; ok {
				cn = a
			}
			for _, phi := range phis {
				if phi.Comment == cn {
					e.assume(x.guard, fmt.Sprintf("(< %s 4611686018427387904)", x.vals[phi].T))
					e.assumptionsUsed[fmt.Sprintf("%s: iteration counter %s does not reach 2^62 (machine arithmetic treated as mathematical for this counter only; every iteration takes at least one second)", x.name, cn)] = true
				}
			}
		}
	}
}

// loopModset computes heap keys possibly modified in the loop: value "any" or "new".
func (x *Exec) loopModset(li *loopInfo) map[string]string {
	e := x.enc
	mods := map[string]string{}
	add := func(k, mode string) {
		if mods[k] == "any" {
			return
		}
		mods[k] = mode
	}
	for _, m := range li.spec.Modifies {
		add(x.assignKey(m).key, "any")
	}
	for b := range li.body {
		for _, in := range b.Instrs {
			x.instrMods(in, li, add)
		}
	}
	// ghost keys only if declared
	for k := range mods {
		if strings.HasPrefix(k, "G:") {
			if _, ok := e.cs.Ghosts[k[2:]]; !ok {
				delete(mods, k)
			}
		}
	}
	return mods
}

// instrMods adds to a modified set what one instruction may modify (li is the
// loop being summarised, or nil when summarising an inlined helper).
func (x *Exec) instrMods(in ssa.Instruction, li *loopInfo, add func(k, mode string)) {
	e := x.enc
	switch in := in.(type) {
	case *ssa.Alloc:
		if in.Heap {
			add("brk", "any")
			k, _ := e.heapKeyFor(deref(in.Type()))
			if _, isArr := deref(in.Type()).Underlying().(*types.Array); isArr {
				k, _ = e.memKeyFor(deref(in.Type()).Underlying().(*types.Array).Elem())
			}
			add(k, "new")
		}
	case *ssa.Store:
		k, fresh := x.storeKey(in.Addr, li)
		if fresh {
			add(k, "new")
		} else {
			add(k, "any")
		}
	case *ssa.MapUpdate:
		mt := in.Map.Type().Underlying().(*types.Map)
		d, v, _, _ := e.mapKeysFor(mt)
		add(d, "any")
		add(v, "any")
	case *ssa.MakeSlice:
		add("brk", "any")
		k, _ := e.memKeyFor(in.Type().Underlying().(*types.Slice).Elem())
		add(k, "new")
	case *ssa.MakeMap:
		add("brk", "any")
		mt := in.Type().Underlying().(*types.Map)
		d, v, _, _ := e.mapKeysFor(mt)
		add(d, "new")
		add(v, "new")
	case *ssa.Next:
		if rg, ok := in.Iter.(*ssa.Range); ok {
			k := x.iterKey(rg)
			if _, known := e.heapSort[k]; known { // iterators created inside the loop are re-initialised there
				add(k, "any")
			}
		}
	case *ssa.MakeClosure, *ssa.MakeChan:
		add("brk", "any")
	case *ssa.MakeInterface:
	case ssa.CallInstruction:
		c := in.Common()
		if b, ok := c.Value.(*ssa.Builtin); ok {
			if b.Name() == "append" {
				add("brk", "any")
				k, _ := e.memKeyFor(c.Args[0].Type().Underlying().(*types.Slice).Elem())
				add(k, "new")
			}
			return
		}
		for _, a := range x.calleeAssigns(c) {
			add(a.key, a.mode)
			if a.key == "*" && li != nil {
				if x.loopPreserve == nil {
					x.loopPreserve = map[*loopInfo]map[string]int{}
				}
				if x.loopPreserve[li] == nil {
					x.loopPreserve[li] = map[string]int{}
				}
				x.loopPreserve[li]["#stars"]++
				for _, pk := range a.preserves {
					x.loopPreserve[li][pk]++
				}
			}
		}
		if x.fc != nil {
			pats := x.callPatterns(c, c.StaticCallee())
			for _, at := range x.fc.Ats {
				if at.What != "call" {
					continue
				}
				hit := false
				for _, p := range pats {
					if p == at.Pattern {
						hit = true
					}
				}
				if !hit {
					continue
				}
				for _, u := range at.Updates {
					add(x.ghostKey(u.Name), "any")
				}
			}
		}
	case *ssa.Select:
		if x.fc != nil {
			for _, at := range x.fc.Ats {
				for _, u := range at.Updates {
					add(x.ghostKey(u.Name), "any")
				}
			}
		}
		add("G:now", "any")
	case *ssa.Send:
		if x.fc != nil {
			for _, at := range x.fc.Ats {
				for _, u := range at.Updates {
					add(x.ghostKey(u.Name), "any")
				}
			}
		}
	}
}

// inlineAssigns summarises what an inlinable helper (no contract, loop-free) may
// modify, from its own instructions, so that a loop calling it is not treated
// as modifying everything.
func (x *Exec) inlineAssigns(callee *ssa.Function) []assignItem {
	sub := newExec(x.enc, callee, x.name, x.fc)
	sub.parent = x
	sub.inlineDepth = x.inlineDepth + 1
	sub.inlined = true
	sub.localGhost = x.localGhost
	mods := map[string]string{}
	add := func(k, mode string) {
		if mods[k] == "any" {
			return
		}
		mods[k] = mode
	}
	for _, b := range callee.Blocks {
		for _, in := range b.Instrs {
			sub.instrMods(in, nil, add)
		}
	}
	var out []assignItem
	for k, m := range mods {
		out = append(out, assignItem{key: k, mode: m})
	}
	return out
}

func deref(t types.Type) types.Type {
	if p, ok := t.Underlying().(*types.Pointer); ok {
		return p.Elem()
	}
	return t
}

// storeKey determines the heap key of a store target syntactically, and whether
// the base object is allocated inside the loop (fresh).
func (x *Exec) storeKey(addr ssa.Value, li *loopInfo) (string, bool) {
	e := x.enc
	v := addr
	for {
		switch a := v.(type) {
		case *ssa.FieldAddr:
			v = a.X
			continue
		case *ssa.IndexAddr:
			xt := a.X.Type().Underlying()
			if sl, ok := xt.(*types.Slice); ok {
				k, _ := e.memKeyFor(sl.Elem())
				return k, false
			}
			if p, ok := xt.(*types.Pointer); ok {
				if arr, ok := p.Elem().Underlying().(*types.Array); ok {
					k, _ := e.memKeyFor(arr.Elem())
					fresh := false
					if al, ok := a.X.(*ssa.Alloc); ok && li != nil && li.body[al.Block()] {
						fresh = true
					}
					return k, fresh
				}
			}
			v = a.X
			continue
		}
		break
	}
	fresh := false
	if al, ok := v.(*ssa.Alloc); ok && li != nil && li.body[al.Block()] {
		fresh = true
	}
	pt := deref(v.Type())
	if arr, ok := pt.Underlying().(*types.Array); ok {
		k, _ := e.memKeyFor(arr.Elem())
		return k, fresh
	}
	k, _ := e.heapKeyFor(pt)
	return k, fresh
}

func (x *Exec) ghostKey(name string) string {
	if _, ok := x.localGhost[name]; ok {
		return "L:" + name
	}
	return "G:" + name
}

// ---------------------------------------------------------------------------
// values

func (x *Exec) val(v ssa.Value) Val {
	if r, ok := x.vals[v]; ok {
		return r
	}
	e := x.enc
	switch c := v.(type) {
	case *ssa.Const:
		return x.constVal(c)
	case *ssa.Global:
		// address of a package-level variable
		key, cs := e.heapKeyFor(deref(c.Type()))
		gname := "glob!" + sanitize(c.Pkg.Pkg.Name()+"."+c.Name())
		e.decl(fmt.Sprintf("(declare-const %s Int)", gname))
		_ = cs
		return Val{T: gname, Sort: "Int", GT: c.Type(), Loc: &Loc{Key: key, Ref: gname, RootS: cs, RootT: deref(c.Type())}}
	case *ssa.Function:
		id := "fn!" + sanitize(shortName(c))
		e.decl(fmt.Sprintf("(declare-const %s Int)", id))
		e.decl(fmt.Sprintf("(assert (> %s 0))", id))
		// distinct functions have distinct identities
		e.decl(fmt.Sprintf("(assert (= (fnIdent %s) %d))", id, fnOrdinal(shortName(c))))
		x.pureApply(c, id)
		return Val{T: id, Sort: "Int", GT: c.Type()}
	case *ssa.Builtin:
		return Val{T: "0", Sort: "Int", GT: c.Type()}
	}
	x.fail("value %s (%T) used before definition", v.Name(), v)
	return Val{}
}

func (x *Exec) constVal(c *ssa.Const) Val {
	e := x.enc
	t := c.Type()
	s := e.sortOf(t)
	if c.Value == nil {
		return Val{T: e.zeroSort(s, t), Sort: s, GT: t}
	}
	switch c.Value.Kind() {
	case constant.Bool:
		if constant.BoolVal(c.Value) {
			return Val{T: "true", Sort: "Bool", GT: t}
		}
		return Val{T: "false", Sort: "Bool", GT: t}
	case constant.String:
		return Val{T: e.strID(constant.StringVal(c.Value)), Sort: "Int", GT: t}
	case constant.Int:
		if s == "Real" {
			return Val{T: smtReal(c.Value), Sort: "Real", GT: t}
		}
		bi, _ := new(big.Int).SetString(c.Value.ExactString(), 10)
		return Val{T: smtInt(bi), Sort: "Int", GT: t}
	case constant.Float:
		if s == "Real" {
			return Val{T: smtReal(c.Value), Sort: "Real", GT: t}
		}
		bi, _ := new(big.Int).SetString(constant.ToInt(c.Value).ExactString(), 10)
		return Val{T: smtInt(bi), Sort: "Int", GT: t}
	}
	x.fail("constant %s", c)
	return Val{}
}

func smtReal(v constant.Value) string {
	// exact double value as a rational
	f, _ := constant.Float64Val(v)
	r := new(big.Rat).SetFloat64(f)
	neg := r.Sign() < 0
	if neg {
		r.Neg(r)
	}
	s := fmt.Sprintf("(/ %s.0 %s.0)", r.Num().String(), r.Denom().String())
	if neg {
		s = "(- " + s + ")"
	}
	return s
}

// locOf interprets a pointer value as a location.
func (x *Exec) locOf(v ssa.Value) *Loc {
	pv := x.val(v)
	if pv.Loc != nil {
		return pv.Loc
	}
	e := x.enc
	pt := deref(v.Type())
	if arr, ok := pt.Underlying().(*types.Array); ok {
		_ = arr
		x.fail("pointer to array as plain value")
	}
	key, cs := e.heapKeyFor(pt)
	return &Loc{Key: key, Ref: pv.T, RootS: cs, RootT: pt}
}

func (x *Exec) nilCheck(v ssa.Value, what string, p token.Pos) {
	switch b := v.(type) {
	case *ssa.Alloc, *ssa.FieldAddr, *ssa.IndexAddr, *ssa.Global, *ssa.FreeVar:
		return
	case *ssa.Parameter:
		if x.fn.Signature.Recv() != nil && len(x.fn.Params) > 0 && x.fn.Params[0] == b {
			return
		}
	}
	pv := x.val(v)
	if pv.Loc != nil {
		return
	}
	x.safety("nil-"+what, fmt.Sprintf("(not (= %s 0))", pv.T), "nil dereference of "+v.Name(), p)
}

func (x *Exec) set(v ssa.Value, r Val) {
	if r.GT == nil {
		r.GT = v.Type()
	}
	x.vals[v] = r
}

func (x *Exec) setTerm(v ssa.Value, term string) {
	e := x.enc
	s := e.sortOf(v.Type())
	if len(term) > 60 {
		term = e.define(v.Name(), s, term)
	}
	x.vals[v] = Val{T: term, Sort: s, GT: v.Type()}
}

func (x *Exec) brk() string { return x.enc.heapGet(x.st, "brk") }

// ---------------------------------------------------------------------------
// instructions

func (x *Exec) instr(in ssa.Instruction) {
	e := x.enc
	switch in := in.(type) {
	case *ssa.DebugRef:
	case *ssa.BinOp:
		x.binop(in)
	case *ssa.UnOp:
		x.unop(in)
	case *ssa.Alloc:
		x.allocInstr(in)
	case *ssa.FieldAddr:
		x.nilCheck(in.X, "field", in.Pos())
		l := x.locOf(in.X)
		nl := *l
		cur := l.RootS
		if len(l.Path) > 0 {
			cur = l.Path[len(l.Path)-1].Sort
		}
		if _, ok := e.structs[cur]; !ok {
			// A struct type of another module: its fields are not modelled as a
			// datatype. The field is a separate cell of the field's type whose
			// address is an injective function of the struct's address.
			base := x.val(in.X).T
			if len(l.Path) == 0 && l.Idx == "" && l.Ref != "" {
				base = l.Ref
			} else if x.val(in.X).Loc != nil {
				base = ""
			}
			if base == "" {
				x.fail("field address into opaque type %s", cur)
			}
			fn := fmt.Sprintf("fieldcell!%s!%d", sanitize(cur), in.Field)
			e.decl(fmt.Sprintf("(declare-fun %s (Int) Int)", fn))
			t := fmt.Sprintf("(%s %s)", fn, base)
			e.assume(x.guard, fmt.Sprintf("(and (> %s 0) (< %s %s))", t, t, x.brk()))
			e.assumptionsUsed["fields of struct types of other modules (rtnetlink messages, ...) are separate cells addressed by a function of the struct's address; only calls that may assign everything change them"] = true
			x.vals[in] = Val{Sort: "Int", GT: in.Type(), T: t}
			return
		}
		nl.Path = append(append([]PathElem(nil), l.Path...), e.fieldElem(cur, in.Field))
		x.vals[in] = Val{Sort: "Int", GT: in.Type(), Loc: &nl, T: ""}
		x.lockDiscipline(in, l, cur)
	case *ssa.Field:
		sv := x.val(in.X)
		si := e.structs[sv.Sort]
		if si == nil {
			x.fail("field of non-struct sort %s", sv.Sort)
		}
		x.setTerm(in, fmt.Sprintf("(%s %s)", si.Fields[in.Field], sv.T))
	case *ssa.IndexAddr:
		x.indexAddr(in)
	case *ssa.Index:
		xv := x.val(in.X)
		iv := x.val(in.Index)
		switch t := in.X.Type().Underlying().(type) {
		case *types.Array:
			x.safety("index", fmt.Sprintf("(and (<= 0 %s) (< %s %d))", iv.T, iv.T, t.Len()), "index in range", in.Pos())
			x.setTerm(in, fmt.Sprintf("(select %s %s)", xv.T, iv.T))
		default:
			x.fail("index on %s", in.X.Type())
		}
	case *ssa.Store:
		x.storeInstr(in)
	case *ssa.Phi:
	case *ssa.If:
		c := x.val(in.Cond)
		b := in.Block()
		x.addEdge(b, b.Succs[0], and(x.guard, c.T))
		x.addEdge(b, b.Succs[1], and(x.guard, not(c.T)))
	case *ssa.Jump:
		b := in.Block()
		s := b.Succs[0]
		if x.isBackEdge(b, s) {
			x.backEdge(b, s)
			return
		}
		x.addEdge(b, s, x.guard)
	case *ssa.Return:
		x.returnInstr(in)
	case *ssa.Panic:
		x.safety("panic", "false", "panic reachable: "+x.describePanic(in), in.Pos())
	case *ssa.Call:
		x.call(in, in.Common(), in)
	case *ssa.Go:
		x.goInstr(in)
	case *ssa.Defer:
		x.st.Defers = append(x.st.Defers, deferred{instr: in, guard: x.guard})
	case *ssa.RunDefers:
		ds := x.st.Defers
		x.st.Defers = nil
		for i := len(ds) - 1; i >= 0; i-- {
			d := ds[i].instr.(*ssa.Defer)
			x.call(d, d.Common(), nil)
		}
	case *ssa.Extract:
		tv := x.val(in.Tuple)
		if tv.Tup == nil {
			x.fail("extract from non-tuple")
		}
		r := tv.Tup[in.Index]
		r.GT = in.Type()
		x.vals[in] = r
	case *ssa.MakeInterface:
		x.makeInterface(in)
	case *ssa.ChangeInterface:
		v := x.val(in.X)
		v.GT = in.Type()
		x.vals[in] = v
	case *ssa.ChangeType:
		v := x.materialize(x.val(in.X))
		v.GT = in.Type()
		x.vals[in] = v
	case *ssa.Convert:
		x.convert(in)
	case *ssa.TypeAssert:
		x.typeAssert(in)
	case *ssa.MakeClosure:
		x.makeClosure(in)
	case *ssa.MakeSlice:
		x.makeSlice(in)
	case *ssa.MakeMap:
		x.makeMap(in)
	case *ssa.MakeChan:
		r := e.alloc(x.st)
		x.vals[in] = Val{T: r, Sort: "Int", GT: in.Type()}
		e.assume(x.guard, fmt.Sprintf("(= (chanCap %s) %s)", r, x.val(in.Size).T))
	case *ssa.Slice:
		x.sliceInstr(in)
	case *ssa.Lookup:
		x.lookup(in)
	case *ssa.MapUpdate:
		x.mapUpdate(in)
	case *ssa.Range:
		x.rangeInstr(in)
	case *ssa.Next:
		x.nextInstr(in)
	case *ssa.Select:
		x.selectInstr(in)
	case *ssa.Send:
		x.sendInstr(in)
	default:
		x.fail("instruction %T (%s)", in, in)
	}
}

func (x *Exec) describePanic(in *ssa.Panic) string {
	if mi, ok := in.X.(*ssa.MakeInterface); ok {
		if c, ok := mi.X.(*ssa.Const); ok && c.Value != nil && c.Value.Kind() == constant.String {
			return constant.StringVal(c.Value)
		}
	}
	return in.X.Name()
}

func (x *Exec) addEdge(p, s *ssa.BasicBlock, cond string) {
	k := [2]int{p.Index, s.Index}
	x.edge[k] = append(x.edge[k], cond)
	if x.isBackEdge(p, s) {
		// conditional back edge (e.g. `if c goto header`): check invariants under cond
		saved := x.guard
		x.guard = cond
		x.backEdge(p, s)
		x.guard = saved
	}
}

func (x *Exec) backEdge(p, h *ssa.BasicBlock) {
	li := x.loops[h]
	if li == nil {
		x.fail("back edge to non-header")
	}
	// bind phis to back-edge operands
	saved := map[ssa.Value]Val{}
	idx := -1
	for i, q := range h.Preds {
		if q == p {
			idx = i
		}
	}
	for _, in := range h.Instrs {
		phi, ok := in.(*ssa.Phi)
		if !ok {
			break
		}
		saved[phi] = x.vals[phi]
		x.vals[phi] = x.val(phi.Edges[idx])
	}
	for _, c := range li.spec.Invariants {
		t := x.evalBool(c.Expr, x.envAtHeader(li), c)
		x.oblige("inv-keep", fmt.Sprintf("loop%d.%s", li.ordinal, c.Label), c.Tags, len(c.Tags) == 0, t, c.Src, c.Where)
	}
	for k, v := range saved {
		x.vals[k] = v
	}
}

// ---------------------------------------------------------------------------

func (x *Exec) binop(in *ssa.BinOp) {
	e := x.enc
	a, b := x.materialize(x.val(in.X)), x.materialize(x.val(in.Y))
	xt := in.X.Type().Underlying()
	isInt := false
	isStr := false
	if bt, ok := xt.(*types.Basic); ok {
		isInt = bt.Info()&types.IsInteger != 0
		isStr = bt.Info()&types.IsString != 0
	}
	var t string
	switch in.Op {
	case token.EQL:
		t = fmt.Sprintf("(= %s %s)", a.T, b.T)
	case token.NEQ:
		t = fmt.Sprintf("(not (= %s %s))", a.T, b.T)
	case token.LSS, token.LEQ, token.GTR, token.GEQ:
		op := map[token.Token]string{token.LSS: "<", token.LEQ: "<=", token.GTR: ">", token.GEQ: ">="}[in.Op]
		if isStr {
			e.decl("(declare-fun str_less (Int Int) Bool)")
			switch in.Op {
			case token.LSS:
				t = fmt.Sprintf("(str_less %s %s)", a.T, b.T)
			case token.GTR:
				t = fmt.Sprintf("(str_less %s %s)", b.T, a.T)
			case token.LEQ:
				t = fmt.Sprintf("(not (str_less %s %s))", b.T, a.T)
			default:
				t = fmt.Sprintf("(not (str_less %s %s))", a.T, b.T)
			}
		} else {
			t = fmt.Sprintf("(%s %s %s)", op, a.T, b.T)
		}
	case token.ADD, token.SUB, token.MUL:
		if isStr {
			t = fmt.Sprintf("(str_concat %s %s)", a.T, b.T)
			break
		}
		op := map[token.Token]string{token.ADD: "+", token.SUB: "-", token.MUL: "*"}[in.Op]
		t = fmt.Sprintf("(%s %s %s)", op, a.T, b.T)
		if isInt {
			t = e.define(in.Name(), "Int", t)
			lo, hi := intRange(in.Type())
			_, ca := in.X.(*ssa.Const)
			_, cb := in.Y.(*ssa.Const)
			if !(ca && cb) {
				x.safety("overflow", fmt.Sprintf("(and (<= %s %s) (<= %s %s))", smtInt(lo), t, t, smtInt(hi)),
					fmt.Sprintf("no overflow in %s %s %s", in.X.Name(), in.Op, in.Y.Name()), in.Pos())
			}
		}
	case token.QUO, token.REM:
		if !isInt {
			t = fmt.Sprintf("(/ %s %s)", a.T, b.T)
			break
		}
		x.safety("div0", fmt.Sprintf("(not (= %s 0))", b.T), "division by zero", in.Pos())
		if in.Op == token.QUO {
			t = fmt.Sprintf("(godiv %s %s)", a.T, b.T)
		} else {
			t = fmt.Sprintf("(gomod %s %s)", a.T, b.T)
		}
	case token.AND, token.OR, token.XOR, token.AND_NOT:
		if a.Sort == "Bool" {
			t = map[token.Token]string{token.AND: "(and %s %s)", token.OR: "(or %s %s)", token.XOR: "(xor %s %s)"}[in.Op]
			t = fmt.Sprintf(t, a.T, b.T)
			break
		}
		fn := map[token.Token]string{token.AND: "bitand", token.OR: "bitor", token.XOR: "bitxor", token.AND_NOT: "bitandnot"}[in.Op]
		t = fmt.Sprintf("(%s %s %s)", fn, a.T, b.T)
	case token.SHL, token.SHR:
		if c, ok := in.Y.(*ssa.Const); ok {
			n, _ := constant.Int64Val(c.Value)
			p := new(big.Int).Lsh(big.NewInt(1), uint(n))
			if in.Op == token.SHL {
				t = fmt.Sprintf("(* %s %s)", a.T, p.String())
			} else {
				t = fmt.Sprintf("(div %s %s)", a.T, p.String())
			}
		} else {
			fn := "bitshl"
			if in.Op == token.SHR {
				fn = "bitshr"
			}
			t = fmt.Sprintf("(%s %s %s)", fn, a.T, b.T)
		}
	default:
		x.fail("binop %s", in.Op)
	}
	x.setTerm(in, t)
}

func (x *Exec) unop(in *ssa.UnOp) {
	e := x.enc
	switch in.Op {
	case token.MUL: // load
		x.nilCheck(in.X, "load", in.Pos())
		if g, ok := in.X.(*ssa.Global); ok {
			x.vals[in] = x.globalVal(g)
			return
		}
		l := x.locOf(in.X)
		var t string
		if l.Idx == "ARRAY" && len(l.Path) == 0 {
			t = fmt.Sprintf("(select %s %s)", e.heapGet(x.st, l.Key), l.Ref)
		} else {
			t = e.load(x.st, l)
		}
		s := e.sortOf(in.Type())
		t = e.define(in.Name(), s, t)
		for _, f := range e.typeFacts(t, in.Type(), x.brk(), 1) {
			e.assume(x.guard, f)
		}
		x.vals[in] = Val{T: t, Sort: s, GT: in.Type()}
	case token.NOT:
		x.setTerm(in, not(x.val(in.X).T))
	case token.SUB:
		v := x.val(in.X)
		t := fmt.Sprintf("(- %s)", v.T)
		x.setTerm(in, t)
	case token.ARROW:
		x.recvInstr(in)
	case token.XOR:
		x.setTerm(in, fmt.Sprintf("(bitnot %s)", x.val(in.X).T))
	default:
		x.fail("unop %s", in.Op)
	}
}

// pureApply: for a capture-free function whose contract says `opt pure F` and
// `ensures L: result == E(params)`, calling the function value is denoted by
// the prelude function F(fnvalue, params...) and equals E (justified by the
// function's own verified postcondition).
func (x *Exec) pureApply(fn *ssa.Function, id string) {
	e := x.enc
	fc := e.cs.Funcs[shortName(fn)]
	if fc == nil {
		fc = e.cs.Funcs[fn.String()]
	}
	if fc == nil || fc.Opts["pure"] == "" || len(fn.FreeVars) > 0 {
		return
	}
	f := fc.Opts["pure"]
	sig, ok := e.funSig(f)
	if !ok || len(sig.args) != len(fn.Params)+1 {
		x.fail("pure: %s is not a prelude function of %d arguments", f, len(fn.Params)+1)
	}
	binders := map[string]Val{}
	var qs, as []string
	for i, p := range fn.Params {
		vn := fmt.Sprintf("%s!q%d", p.Name(), 900+i)
		s := e.sortOf(p.Type())
		binders[p.Name()] = Val{T: vn, Sort: s, GT: p.Type()}
		qs = append(qs, fmt.Sprintf("(%s %s)", vn, s))
		as = append(as, vn)
	}
	for o, n := range nameAliases(shortName(fn), fn) { // parameters renamed since the contract was written
		if v, ok := binders[n]; ok {
			if _, taken := binders[o]; !taken {
				binders[o] = v
			}
		}
	}
	app := fmt.Sprintf("(%s %s %s)", f, id, strings.Join(as, " "))
	for _, c := range fc.Ensures {
		b, ok := c.Expr.(*SBinary)
		if !ok || b.Op != "==" {
			continue
		}
		if l, ok := b.L.(*SIdent); !ok || (l.Name != "result" && !(len(fc.Results) == 1 && fc.Results[0] == l.Name)) {
			continue
		}
		if len(fc.Params) == len(fn.Params) {
			for i, pn := range fc.Params {
				binders[pn] = binders[fn.Params[i].Name()]
			}
		}
		env := &Env{x: x, st: x.st, old: x.st, binders: binders, bound: map[string]Val{}, closed: true}
		x.noFacts = true
		rv := x.eval(b.R, env)
		x.noFacts = false
		e.decl(fmt.Sprintf("(assert (forall (%s) (! (= %s %s) :pattern (%s))))", strings.Join(qs, " "), app, rv.T, app))
		e.assumptionsUsed["calling the comparator function value "+shortName(fn)+" equals its verified postcondition ("+f+")"] = true
	}
}

// lockDiscipline: `opt guarded FIELD MUTEX [TAGS]` - every access to FIELD of
// the struct must happen with the struct's MUTEX held (ghost lock depth > 0).
func (x *Exec) lockDiscipline(in *ssa.FieldAddr, base *Loc, structSort string) {
	if x.fc == nil || x.fc.Opts["guarded"] == "" {
		return
	}
	f := strings.Fields(x.fc.Opts["guarded"])
	if len(f) < 2 {
		return
	}
	e := x.enc
	si := e.structs[structSort]
	if si == nil || si.FNames[in.Field] != f[0] {
		return
	}
	mi := -1
	for i, n := range si.FNames {
		if n == f[1] {
			mi = i
		}
	}
	if mi < 0 {
		return
	}
	ml := *base
	ml.Path = append(append([]PathElem(nil), base.Path...), e.fieldElem(structSort, mi))
	mu := x.materialize(Val{Sort: "Int", Loc: &ml})
	tags := optTags(x.fc.Opts["guarded"])
	depth := x.ghostLoad("lockDepth", x.st)
	x.oblige("lock", "held-"+f[1]+"-for-"+f[0], tags, len(tags) == 0, fmt.Sprintf("(> (select %s %s) 0)", depth.T, mu.T),
		fmt.Sprintf("access to %s requires %s to be held", f[0], f[1]), x.pos(in.Pos()))
}

// globalVal: package-level variables are treated as immutable constants.
func (x *Exec) globalVal(g *ssa.Global) Val {
	e := x.enc
	t := deref(g.Type())
	name := "gv!" + sanitize(g.Pkg.Pkg.Name()+"."+g.Name())
	s := e.sortOf(t)
	e.decl(fmt.Sprintf("(declare-const %s %s)", name, s))
	for _, f := range e.typeFacts(name, t, "", 0) {
		e.decl(fmt.Sprintf("(assert %s)", f))
	}
	if types.Identical(t, types.Universe.Lookup("error").Type()) {
		// sentinel errors are distinct non-nil values
		e.decl(fmt.Sprintf("(assert (and (= (itag %s) %d) (= (ival %s) %s)))", name, errTag, name, smtInt(big.NewInt(int64(e.sentinelID(name))))))
		if g.Pkg.Pkg.Path() == "context" {
			e.decl(fmt.Sprintf("(assert (isCanceledErr %s))", name))
		} else {
			e.decl(fmt.Sprintf("(assert (not (isCanceledErr %s)))", name))
		}
	}
	e.assumptionsUsed["package-level variables (sentinel errors, autoPrefix/autoRoute, deadlineNow) are never reassigned (govc rejects a Store to a Global in functions under contract)"] = true
	return Val{T: name, Sort: s, GT: t}
}

func (x *Exec) allocInstr(in *ssa.Alloc) {
	e := x.enc
	pt := deref(in.Type())
	r := e.alloc(x.st)
	if arr, ok := pt.Underlying().(*types.Array); ok {
		key, es := e.memKeyFor(arr.Elem())
		h := e.heapGet(x.st, key)
		e.heapSet(x.st, key, fmt.Sprintf("(store %s %s %s)", h, r, e.constArray(fmt.Sprintf("(Array Int %s)", es), es, arr.Elem())))
		x.vals[in] = Val{T: r, Sort: "Int", GT: in.Type(), Loc: &Loc{Key: key, Ref: r, RootS: es, RootT: arr.Elem(), Idx: "ARRAY"}}
		return
	}
	key, cs := e.heapKeyFor(pt)
	h := e.heapGet(x.st, key)
	e.heapSet(x.st, key, fmt.Sprintf("(store %s %s %s)", h, r, e.zeroSort(cs, pt)))
	x.vals[in] = Val{T: r, Sort: "Int", GT: in.Type(), Loc: &Loc{Key: key, Ref: r, RootS: cs, RootT: pt}}
}

func (x *Exec) indexAddr(in *ssa.IndexAddr) {
	e := x.enc
	iv := x.val(in.Index)
	switch t := in.X.Type().Underlying().(type) {
	case *types.Slice:
		sv := x.val(in.X)
		key, es := e.memKeyFor(t.Elem())
		x.safety("index", fmt.Sprintf("(and (<= 0 %s) (< %s (slen %s)))", iv.T, iv.T, sv.T), "index in range of "+in.X.Name(), in.Pos())
		x.vals[in] = Val{Sort: "Int", GT: in.Type(), Loc: &Loc{Key: key, Ref: fmt.Sprintf("(sref %s)", sv.T), Idx: iv.T, RootS: es, RootT: t.Elem()}}
	case *types.Pointer:
		arr, ok := t.Elem().Underlying().(*types.Array)
		if !ok {
			x.fail("indexaddr on %s", in.X.Type())
		}
		pv := x.val(in.X)
		if pv.Loc != nil && pv.Loc.Idx == "ARRAY" {
			key, es := e.memKeyFor(arr.Elem())
			x.safety("index", fmt.Sprintf("(and (<= 0 %s) (< %s %d))", iv.T, iv.T, arr.Len()), "index in range", in.Pos())
			x.vals[in] = Val{Sort: "Int", GT: in.Type(), Loc: &Loc{Key: key, Ref: pv.Loc.Ref, Idx: iv.T, RootS: es, RootT: arr.Elem()}}
			return
		}
		if pv.Loc != nil {
			// array inside a struct: extend the path
			nl := *pv.Loc
			es := e.sortOf(arr.Elem())
			nl.Path = append(append([]PathElem(nil), pv.Loc.Path...), PathElem{Field: -1, Idx: iv.T, Sort: es, GT: arr.Elem()})
			x.safety("index", fmt.Sprintf("(and (<= 0 %s) (< %s %d))", iv.T, iv.T, arr.Len()), "index in range", in.Pos())
			x.vals[in] = Val{Sort: "Int", GT: in.Type(), Loc: &nl}
			return
		}
		x.fail("indexaddr on plain array pointer")
	default:
		x.fail("indexaddr on %s", in.X.Type())
	}
}

type assignItem struct {
	key  string
	mode string // any | new
	at   SExpr
	preserves []string // for key "*": keys the callee leaves unchanged
}

func (x *Exec) storeInstr(in *ssa.Store) {
	e := x.enc
	if _, ok := in.Addr.(*ssa.Global); ok {
		x.fail("store to package-level variable %s", in.Addr.Name())
	}
	x.nilCheck(in.Addr, "store", in.Pos())
	l := x.locOf(in.Addr)
	v := x.materialize(x.val(in.Val))
	if l.Idx == "ARRAY" {
		// whole-array assignment to a local array
		h := e.heapGet(x.st, l.Key)
		x.frameCheck(l.Key, l.Ref, in.Pos())
		e.heapSet(x.st, l.Key, fmt.Sprintf("(store %s %s %s)", h, l.Ref, v.T))
		return
	}
	x.frameCheck(l.Key, l.Ref, in.Pos())
	e.store(x.st, l, v.T)
}

// frameCheck: a write to (key, ref) must be permitted by the assigns clause
// or target an object allocated by this activation.
func (x *Exec) frameCheck(key, ref string, p token.Pos) {
	if x.fc == nil {
		return
	}
	var allowed []string
	for _, a := range x.fc.Assigns {
		it := x.assignKey(a)
		if it.key == "*" {
			if x.preservedKeys()[key] {
				continue // `opt preserves`: only fresh cells of this component may be written
			}
			return
		}
		if it.key != key {
			continue
		}
		if it.mode == "new" {
			continue
		}
		if it.at == nil {
			return
		}
		env := x.envAt(nil)
		env.st = x.entry
		rv := x.eval(it.at, env)
		allowed = append(allowed, fmt.Sprintf("(= %s %s)", ref, rv.T))
	}
	// syntactic shortcut: ref is a fresh allocation of this activation
	if strings.HasPrefix(ref, "ref!") {
		return
	}
	allowed = append(allowed, fmt.Sprintf("(>= %s %s)", ref, x.brk0))
	if strings.HasPrefix(key, "M_") {
		allowed = append(allowed, fmt.Sprintf("(= %s 0)", ref)) // the nil slice has no elements to write
	}
	x.oblige("frame", "write-"+key, x.frameTags(), len(x.frameTags()) == 0, or(allowed...), "write to "+key+" not covered by assigns", x.pos(p))
}

// preservedKeys: the components a function that `assigns everything` promises
// to leave alone (`opt preserves`); checked like a frame for verified functions.
func (x *Exec) assumedLabels() map[string]bool {
	out := map[string]bool{}
	if x.fc != nil {
		for _, l := range splitList(x.fc.Opts["assume"]) {
			out[l] = true
		}
	}
	return out
}

func (x *Exec) preservedKeys() map[string]bool {
	out := map[string]bool{}
	if x.fc == nil {
		return out
	}
	if x.assumedLabels()["preserves"] {
		x.enc.assumptionsUsed["assumed frame (not proved): "+x.name+" preserves "+x.fc.Opts["preserves"]] = true
		return out
	}
	for _, pk := range splitList(x.fc.Opts["preserves"]) {
		out[x.assignKey(pk).key] = true
	}
	return out
}

func (x *Exec) frameTags() []string {
	if x.fc == nil {
		return nil
	}
	if t, ok := x.fc.Opts["frame"]; ok {
		return splitList(strings.Trim(t, "[]"))
	}
	return nil
}

// assignKey parses an assigns item: [new] heap(T) [at expr] | mem(T) | map(K,V) | ghost.x | everything
func (x *Exec) assignKey(s string) assignItem {
	e := x.enc
	it := assignItem{mode: "any"}
	s = strings.TrimSpace(s)
	if strings.HasPrefix(s, "new ") {
		it.mode = "new"
		s = strings.TrimSpace(s[4:])
	}
	if i := strings.Index(s, " at "); i >= 0 {
		ex, err := parseSpec(s[i+4:])
		if err != nil {
			x.fail("assigns: %v", err)
		}
		it.at = ex
		s = strings.TrimSpace(s[:i])
	}
	switch {
	case s == "everything":
		it.key = "*"
	case s == "brk":
		it.key = "brk"
	case strings.HasPrefix(s, "ghost."):
		it.key = x.ghostKey(s[6:])
	case strings.HasPrefix(s, "key(") && strings.HasSuffix(s, ")"):
		// a heap component named directly (map components have no Go type name)
		it.key = s[4 : len(s)-1]
	case strings.HasPrefix(s, "heap(") && strings.HasSuffix(s, ")"):
		t := e.prog.lookupType(s[5 : len(s)-1])
		if t == nil {
			x.fail("assigns: unknown type %s", s)
		}
		it.key, _ = e.heapKeyFor(t)
	case s == "mem($T)":
		fn := x.typeArgFn
		if fn == nil {
			fn = x.fn
		}
		if fn == nil || len(fn.TypeArgs()) == 0 {
			x.fail("assigns: $T outside a generic instantiation")
		}
		it.key, _ = e.memKeyFor(fn.TypeArgs()[0])
	case strings.HasPrefix(s, "mem(") && strings.HasSuffix(s, ")"):
		t := e.prog.lookupType(s[4 : len(s)-1])
		if t == nil {
			x.fail("assigns: unknown type %s", s)
		}
		it.key, _ = e.memKeyFor(t)
	default:
		x.fail("assigns: cannot parse %q", s)
	}
	return it
}

func (x *Exec) returnInstr(in *ssa.Return) {
	x.retSites++
	if !x.inlined {
		x.retGuards = append(x.retGuards, x.guard)
	}
	if x.inlined {
		var rs []Val
		for _, r := range in.Results {
			rs = append(rs, x.materialize(x.val(r)))
		}
		x.rets = append(x.rets, inlineRet{guard: x.guard, vals: rs, st: x.st.clone()})
		return
	}
	if x.fc == nil {
		return
	}
	if x.takesLocks() {
		// lock balance: a function that takes a mutex gives it back on every return
		// (an unbalanced path is a latent deadlock of everything else using the mutex)
		if _, ok := x.enc.cs.Ghosts["lockDepth"]; ok {
			de := x.ghostLoad("lockDepth", x.entry)
			dr := x.ghostLoad("lockDepth", x.st)
			x.oblige("lock", "balance", nil, true,
				fmt.Sprintf("(forall ((m!lb Int)) (or (< (select %s m!lb) 0) (= (select %s m!lb) (select %s m!lb))))", de.T, dr.T, de.T),
				"every mutex is released as often as it was taken", x.pos(in.Pos()))
		}
	}
	var rs []Val
	for _, r := range in.Results {
		rs = append(rs, x.materialize(x.val(r)))
	}
	// ghost code at return: `at return all: ghost.x = e` (may mention results)
	for _, at := range x.fc.Ats {
		if at.What != "return" {
			continue
		}
		at.Used = true
		for _, u := range at.Updates {
			env := x.envAt(rs)
			v := x.eval(u.Expr, env)
			k := x.ghostKey(u.Name)
			if _, ok := e0(x).heapSort[k]; !ok {
				x.ghostLoad(u.Name, x.st)
			}
			e0(x).heapSet(x.st, k, v.T)
		}
	}
	env := x.envAt(rs)
	env.paramsEntry = true
	assumed := x.assumedLabels()
	for _, c := range x.fc.Ensures {
		if assumed[c.Label] {
			// `opt assume LABEL`: a postcondition that is assumed, not proved
			// (visible to callers, listed as an assumption in the evidence)
			x.enc.assumptionsUsed["assumed postcondition (not proved): "+x.name+"/"+c.Label+": "+c.Src] = true
			continue
		}
		t := x.evalBool(c.Expr, env, c)
		x.oblige("post", c.Label, c.Tags, len(c.Tags) == 0, t, c.Src, c.Where+" @return "+x.pos(in.Pos()))
	}
	if x.refined != nil {
		renv := &Env{x: x, st: x.st, old: x.entry, binders: x.refBinders, bound: map[string]Val{}, closed: true, results: rs, resNames: x.refined.Results}
		tags := splitList(strings.Trim(x.fc.Opts["refinetags"], "[]"))
		for _, c := range x.refined.Ensures {
			t := x.evalBool(c.Expr, renv, c)
			ts := append(append([]string(nil), c.Tags...), tags...)
			x.oblige("refine", c.Label, ts, len(ts) == 0, t, c.Src, c.Where+" @return "+x.pos(in.Pos()))
		}
	}
}

func e0(x *Exec) *Enc { return x.enc }

func (x *Exec) makeInterface(in *ssa.MakeInterface) {
	e := x.enc
	v := x.materialize(x.val(in.X))
	tag := e.tagOf(in.X.Type())
	payload := x.boxPayload(v, in.X.Type())
	x.setTerm(in, fmt.Sprintf("(mk-iface %d %s)", tag, payload))
}

func (x *Exec) boxPayload(v Val, t types.Type) string {
	e := x.enc
	if v.Sort == "Int" {
		return v.T
	}
	bn := "box!" + sanitize(v.Sort)
	un := "unbox!" + sanitize(v.Sort)
	e.decl(fmt.Sprintf("(declare-fun %s (%s) Int)", bn, v.Sort))
	e.decl(fmt.Sprintf("(declare-fun %s (Int) %s)", un, v.Sort))
	e.decl(fmt.Sprintf("(assert (forall ((v %s)) (! (= (%s (%s v)) v) :pattern ((%s v)))))", v.Sort, un, bn, bn))
	return fmt.Sprintf("(%s %s)", bn, v.T)
}

func (x *Exec) unboxPayload(payload string, t types.Type) Val {
	e := x.enc
	s := e.sortOf(t)
	if s == "Int" {
		return Val{T: payload, Sort: s, GT: t}
	}
	bn := "box!" + sanitize(s)
	un := "unbox!" + sanitize(s)
	e.decl(fmt.Sprintf("(declare-fun %s (%s) Int)", bn, s))
	e.decl(fmt.Sprintf("(declare-fun %s (Int) %s)", un, s))
	e.decl(fmt.Sprintf("(assert (forall ((v %s)) (! (= (%s (%s v)) v) :pattern ((%s v)))))", s, un, bn, bn))
	return Val{T: fmt.Sprintf("(%s %s)", un, payload), Sort: s, GT: t}
}

func (x *Exec) typeAssert(in *ssa.TypeAssert) {
	e := x.enc
	v := x.val(in.X)
	var ok string
	var res Val
	if types.IsInterface(in.AssertedType) {
		it := in.AssertedType.Underlying().(*types.Interface)
		if it.NumMethods() == 0 {
			ok = fmt.Sprintf("(not (= (itag %s) 0))", v.T)
		} else {
			fn := "impl!" + sanitize(shortTypeName(in.AssertedType))
			e.decl(fmt.Sprintf("(declare-fun %s (Int) Bool)", fn))
			// known tags
			ok = fmt.Sprintf("(and (not (= (itag %s) 0)) (%s (itag %s)))", v.T, fn, v.T)
			x.implAxioms(fn, in.AssertedType)
		}
		res = Val{T: v.T, Sort: "Iface", GT: in.AssertedType}
	} else {
		tag := e.tagOf(in.AssertedType)
		ok = fmt.Sprintf("(= (itag %s) %d)", v.T, tag)
		res = x.unboxPayload(fmt.Sprintf("(ival %s)", v.T), in.AssertedType)
	}
	if in.CommaOk {
		okn := e.define(in.Name()+"_ok", "Bool", ok)
		zero := e.zero(in.AssertedType)
		rv := Val{T: ite(okn, res.T, zero), Sort: res.Sort, GT: in.AssertedType}
		if len(rv.T) > 60 {
			rv.T = e.define(in.Name(), rv.Sort, rv.T)
		}
		x.vals[in] = Val{Tup: []Val{rv, {T: okn, Sort: "Bool", GT: types.Typ[types.Bool]}}, Sort: "Tuple", GT: in.Type()}
		return
	}
	x.safety("typeassert", ok, "type assertion to "+shortTypeName(in.AssertedType), in.Pos())
	x.vals[in] = res
}

func (x *Exec) implAxioms(fn string, iface types.Type) {
	e := x.enc
	it := iface.Underlying().(*types.Interface)
	for id, t := range e.tagTypes {
		v := "false"
		if types.Implements(t, it) {
			v = "true"
		}
		e.decl(fmt.Sprintf("(assert (= (%s %d) %s))", fn, id, v))
	}
}

func (x *Exec) convert(in *ssa.Convert) {
	e := x.enc
	v := x.materialize(x.val(in.X))
	from, to := in.X.Type().Underlying(), in.Type().Underlying()
	fb, fok := from.(*types.Basic)
	tb, tok := to.(*types.Basic)
	if fok && tok {
		switch {
		case fb.Info()&types.IsInteger != 0 && tb.Info()&types.IsInteger != 0:
			lo, hi := intRange(in.Type())
			flo, fhi := intRange(in.X.Type())
			if flo.Cmp(lo) < 0 || fhi.Cmp(hi) > 0 {
				if _, isC := in.X.(*ssa.Const); !isC {
					x.safety("narrowing", fmt.Sprintf("(and (<= %s %s) (<= %s %s))", smtInt(lo), v.T, v.T, smtInt(hi)),
						fmt.Sprintf("conversion %s -> %s keeps the value", shortTypeName(in.X.Type()), shortTypeName(in.Type())), in.Pos())
				}
			}
			x.vals[in] = Val{T: v.T, Sort: "Int", GT: in.Type()}
			return
		case fb.Info()&types.IsInteger != 0 && tb.Info()&types.IsFloat != 0:
			e.assumptionsUsed["float64(int) is exact (|x| < 2^53 checked as an obligation)"] = true
			x.safety("float-exact", fmt.Sprintf("(and (< (- 9007199254740992) %s) (< %s 9007199254740992))", v.T, v.T), "integer exactly representable as float64", in.Pos())
			x.setTerm(in, fmt.Sprintf("(to_real %s)", v.T))
			return
		case fb.Info()&types.IsFloat != 0 && tb.Info()&types.IsInteger != 0:
			// truncation toward zero
			t := fmt.Sprintf("(ite (>= %s 0.0) (to_int %s) (- (to_int (- %s))))", v.T, v.T, v.T)
			t = e.define(in.Name(), "Int", t)
			lo, hi := intRange(in.Type())
			x.safety("float-to-int", fmt.Sprintf("(and (<= %s %s) (<= %s %s))", smtInt(lo), t, t, smtInt(hi)), "float to int conversion in range", in.Pos())
			x.vals[in] = Val{T: t, Sort: "Int", GT: in.Type()}
			return
		case fb.Info()&types.IsFloat != 0 && tb.Info()&types.IsFloat != 0:
			x.vals[in] = Val{T: v.T, Sort: "Real", GT: in.Type()}
			return
		case fb.Info()&types.IsString != 0 && tb.Info()&types.IsString != 0:
			x.vals[in] = Val{T: v.T, Sort: "Int", GT: in.Type()}
			return
		}
	}
	// string <-> []byte etc.: opaque
	r := x.freshVal("conv", in.Type(), x.brk(), x.guard)
	if fb, ok := in.X.Type().Underlying().(*types.Basic); ok && fb.Info()&types.IsString != 0 {
		if sl, ok := in.Type().Underlying().(*types.Slice); ok {
			if eb, ok := sl.Elem().Underlying().(*types.Basic); ok && eb.Kind() == types.Byte && r.Sort == "Slice" {
				// []byte(s): the content is s (bytesStrOf names the content of a
				// byte slice; valid while the slice is not written, which govc
				// does not track: byte slices are never written in contract code)
				e.assume(x.guard, fmt.Sprintf("(= (bytesStrOf %s) %s)", r.T, v.T))
			}
		}
	}
	e.note("%s: conversion %s -> %s modelled as an unconstrained value", x.name, shortTypeName(in.X.Type()), shortTypeName(in.Type()))
	x.vals[in] = r
}

func (x *Exec) makeClosure(in *ssa.MakeClosure) {
	e := x.enc
	r := e.alloc(x.st)
	fn := in.Fn.(*ssa.Function)
	e.decl("(declare-fun closureFn (Int) Int)")
	fid := x.val(fn)
	e.assume(x.guard, fmt.Sprintf("(= (closureFn %s) %s)", r, fid.T))
	for i, b := range in.Bindings {
		bv := x.materialize(x.val(b))
		fnm := fmt.Sprintf("closureBind%d", i)
		e.decl(fmt.Sprintf("(declare-fun %s (Int) %s)", fnm+"!"+sanitize(bv.Sort), bv.Sort))
		e.assume(x.guard, fmt.Sprintf("(= (%s %s) %s)", fnm+"!"+sanitize(bv.Sort), r, bv.T))
	}
	x.vals[in] = Val{T: r, Sort: "Int", GT: in.Type()}
	// capture obligations: requires-clauses of the closure listed under
	// `opt capture` are checked here, with free variables bound to the
	// captured cells' current contents
	if cfc := e.cs.Funcs[shortName(fn)]; cfc != nil && cfc.Opts["capture"] != "" {
		binders := map[string]Val{}
		for i, fv := range fn.FreeVars {
			if i < len(in.Bindings) {
				pt := deref(fv.Type())
				l := x.locOf(in.Bindings[i])
				binders[fv.Name()] = Val{T: e.load(x.st, l), Sort: e.sortOf(pt), GT: pt}
				binders["&"+fv.Name()] = x.materialize(x.val(in.Bindings[i]))
			}
		}
		// captured variables renamed since the closure's contract was written
		for o, n := range nameAliases(shortName(fn), fn) {
			if v, ok := binders[n]; ok {
				if _, taken := binders[o]; !taken {
					binders[o] = v
					binders["&"+o] = binders["&"+n]
				}
			}
		}
		caps := map[string]bool{}
		for _, l := range splitList(cfc.Opts["capture"]) {
			caps[l] = true
		}
		for _, c := range cfc.Requires {
			if !caps[c.Label] {
				continue
			}
			env := &Env{x: x, st: x.st, old: x.entry, binders: binders, bound: map[string]Val{}, closed: true}
			t := x.evalBool(c.Expr, env, c)
			x.oblige("capture", shortCallee(shortName(fn))+"."+c.Label, c.Tags, len(c.Tags) == 0, t, c.Src, c.Where+" @capture "+x.pos(in.Pos()))
		}
		e.assumptionsUsed["capture obligations: a closure's `capture` precondition is checked where the closure is created and assumed stable until it runs (captured cells are not written afterwards: checked syntactically for the cells named)"] = true
	}
}

func (x *Exec) makeSlice(in *ssa.MakeSlice) {
	e := x.enc
	st := in.Type().Underlying().(*types.Slice)
	key, es := e.memKeyFor(st.Elem())
	r := e.alloc(x.st)
	ln := x.val(in.Len)
	x.safety("makeslice", fmt.Sprintf("(>= %s 0)", ln.T), "non-negative length", in.Pos())
	h := e.heapGet(x.st, key)
	e.heapSet(x.st, key, fmt.Sprintf("(store %s %s %s)", h, r, e.constArray(fmt.Sprintf("(Array Int %s)", es), es, st.Elem())))
	x.setTerm(in, fmt.Sprintf("(mk-slice %s %s)", r, ln.T))
}

func (x *Exec) makeMap(in *ssa.MakeMap) {
	e := x.enc
	mt := in.Type().Underlying().(*types.Map)
	dom, val, ks, vs := e.mapKeysFor(mt)
	r := e.alloc(x.st)
	hd := e.heapGet(x.st, dom)
	e.heapSet(x.st, dom, fmt.Sprintf("(store %s %s ((as const (Array %s Bool)) false))", hd, r, ks))
	hv := e.heapGet(x.st, val)
	e.heapSet(x.st, val, fmt.Sprintf("(store %s %s %s)", hv, r, e.constArray(fmt.Sprintf("(Array %s %s)", ks, vs), vs, mt.Elem())))
	x.vals[in] = Val{T: r, Sort: "Int", GT: in.Type()}
}

func (x *Exec) lookup(in *ssa.Lookup) {
	e := x.enc
	mt, ok := in.X.Type().Underlying().(*types.Map)
	if !ok {
		// string index
		r := x.freshVal("strbyte", in.Type(), "", x.guard)
		x.vals[in] = r
		return
	}
	dom, val, _, vs := e.mapKeysFor(mt)
	m := x.val(in.X)
	k := x.materialize(x.val(in.Index))
	present := fmt.Sprintf("(and (not (= %s 0)) (select (select %s %s) %s))", m.T, e.heapGet(x.st, dom), m.T, k.T)
	v := ite(present, fmt.Sprintf("(select (select %s %s) %s)", e.heapGet(x.st, val), m.T, k.T), e.zeroSort(vs, mt.Elem()))
	vn := e.define(in.Name(), vs, v)
	for _, f := range e.typeFacts(vn, mt.Elem(), x.brk(), 1) {
		e.assume(x.guard, f)
	}
	if in.CommaOk {
		okn := e.define(in.Name()+"_ok", "Bool", present)
		x.vals[in] = Val{Tup: []Val{{T: vn, Sort: vs, GT: mt.Elem()}, {T: okn, Sort: "Bool", GT: types.Typ[types.Bool]}}, Sort: "Tuple", GT: in.Type()}
		return
	}
	x.vals[in] = Val{T: vn, Sort: vs, GT: mt.Elem()}
}

func (x *Exec) mapUpdate(in *ssa.MapUpdate) {
	e := x.enc
	mt := in.Map.Type().Underlying().(*types.Map)
	dom, val, _, _ := e.mapKeysFor(mt)
	m := x.val(in.Map)
	k := x.materialize(x.val(in.Key))
	v := x.materialize(x.val(in.Value))
	x.safety("nil-map", fmt.Sprintf("(not (= %s 0))", m.T), "write to nil map", in.Pos())
	x.frameCheck(dom, m.T, in.Pos())
	hd := e.heapGet(x.st, dom)
	e.heapSet(x.st, dom, fmt.Sprintf("(store %s %s (store (select %s %s) %s true))", hd, m.T, hd, m.T, k.T))
	hv := e.heapGet(x.st, val)
	e.heapSet(x.st, val, fmt.Sprintf("(store %s %s (store (select %s %s) %s %s))", hv, m.T, hv, m.T, k.T, v.T))
}

func (x *Exec) sliceInstr(in *ssa.Slice) {
	e := x.enc
	xv := x.val(in.X)
	switch t := in.X.Type().Underlying().(type) {
	case *types.Pointer: // *[N]T
		arr := t.Elem().Underlying().(*types.Array)
		if xv.Loc == nil || xv.Loc.Idx != "ARRAY" {
			x.fail("slice of array pointer that is not a local array")
		}
		if in.Low != nil {
			if c, ok := in.Low.(*ssa.Const); !ok || c.Int64() != 0 {
				x.fail("slice of array with non-zero low bound")
			}
		}
		hi := fmt.Sprint(arr.Len())
		if in.High != nil {
			hi = x.val(in.High).T
		}
		x.setTerm(in, fmt.Sprintf("(mk-slice %s %s)", xv.Loc.Ref, hi))
	case *types.Slice:
		lo := "0"
		if in.Low != nil {
			lo = x.val(in.Low).T
		}
		hi := fmt.Sprintf("(slen %s)", xv.T)
		if in.High != nil {
			hi = x.val(in.High).T
		}
		x.safety("slice-bounds", fmt.Sprintf("(and (<= 0 %s) (<= %s %s))", lo, lo, hi), "slice bounds", in.Pos())
		if lo == "0" {
			x.setTerm(in, fmt.Sprintf("(mk-slice (sref %s) %s)", xv.T, hi))
			return
		}
		key, es := e.memKeyFor(t.Elem())
		r := e.alloc(x.st)
		na := e.fresh("subslice", fmt.Sprintf("(Array Int %s)", es))
		h := e.heapGet(x.st, key)
		e.assume(x.guard, fmt.Sprintf("(forall ((i Int)) (! (=> (<= 0 i) (= (select %s i) (select (select %s (sref %s)) (+ i %s)))) :pattern ((select %s i))))", na, h, xv.T, lo, na))
		e.heapSet(x.st, key, fmt.Sprintf("(store %s %s %s)", h, r, na))
		x.setTerm(in, fmt.Sprintf("(mk-slice %s (- %s %s))", r, hi, lo))
		e.assumptionsUsed["s[lo:hi] with lo != 0 copies (aliasing with the original dropped)"] = true
	case *types.Basic:
		r := x.freshVal("substr", in.Type(), "", x.guard)
		x.vals[in] = r
	default:
		x.fail("slice of %s", in.X.Type())
	}
}

// envAt builds the evaluation environment at the current point.
func (x *Exec) envAt(results []Val) *Env {
	env := &Env{x: x, st: x.st, old: x.entry, results: results, bound: map[string]Val{}}
	if results != nil && x.fn != nil {
		rs := x.fn.Signature.Results()
		for i := 0; i < rs.Len(); i++ {
			env.resNames = append(env.resNames, rs.At(i).Name())
		}
	}
	return env
}

func (x *Exec) envAtHeader(li *loopInfo) *Env {
	env := x.envAt(nil)
	env.atBlock = li.header
	return env
}

// lookupName resolves a source-level name at the current point.
func (x *Exec) lookupName(name string, at *ssa.BasicBlock, st *State, allowUndef bool) (Val, bool) {
	e := x.enc
	paramVal := func() (Val, bool) {
		for _, p := range x.fn.Params {
			if p.Name() == name {
				return x.vals[p], true
			}
		}
		return Val{}, false
	}
	if st == x.entry && st != x.st {
		// old(...): a parameter name denotes its entry value
		if v, ok := paramVal(); ok {
			return v, true
		}
	}
	for _, fv := range x.fn.FreeVars {
		if fv.Name() == name {
			// captured cell: load current content
			l := x.locOf(fv)
			t := e.load(st, l)
			return Val{T: t, Sort: e.sortOf(deref(fv.Type())), GT: deref(fv.Type())}, true
		}
	}
	if at == nil {
		at = x.cur
	}
	// header phis named `name` in dominating loop headers / blocks
	var best ssa.Value
	bestIsAddr := false
	bestDepth := -1
	// rangeindexN: the hidden index of the range loop with ordinal N
	if strings.HasPrefix(name, "rangeindex") && len(name) > len("rangeindex") {
		var n int
		if _, err := fmt.Sscanf(name[len("rangeindex"):], "%d", &n); err == nil {
			for h, li := range x.loops {
				if li.ordinal != n {
					continue
				}
				for _, in := range h.Instrs {
					if phi, ok := in.(*ssa.Phi); ok && phi.Comment == "rangeindex" {
						if v, ok := x.vals[phi]; ok {
							return v, true
						}
					}
				}
				if v, ok := x.indexLoopVal(h); ok {
					return v, true
				}
			}
		}
	}
	consider := func(v ssa.Value, isAddr bool, b *ssa.BasicBlock, idx int) {
		if _, ok := x.vals[v]; !ok {
			if _, isC := v.(*ssa.Const); !isC {
				return
			}
		}
		if !(b == at || b.Dominates(at)) {
			return
		}
		if b == x.cur && at == x.cur && idx > x.curIdx {
			return
		}
		d := domDepth(b)*100000 + idx
		if d > bestDepth {
			bestDepth, best, bestIsAddr = d, v, isAddr
		}
	}
	// a name that is a parameter denotes that variable (possibly reassigned),
	// never a local that shadows it
	var paramObj types.Object
	for _, p := range x.fn.Params {
		if p.Name() == name {
			paramObj = p.Object()
		}
	}
	for _, b := range x.fn.Blocks {
		for i, in := range b.Instrs {
			switch in := in.(type) {
			case *ssa.Phi:
				if in.Comment == name && paramObj == nil {
					consider(in, false, b, i)
				}
			case *ssa.DebugRef:
				if id, ok := in.Expr.(*ast.Ident); ok && id.Name == name {
					if _, isFn := in.X.(*ssa.Function); isFn {
						continue
					}
					if paramObj != nil && debugObj(x.fn, id) != paramObj {
						continue
					}
					consider(in.X, in.IsAddr, b, i)
				}
			case *ssa.Alloc:
				if in.Comment == name {
					consider(in, true, b, i)
				}
			}
		}
	}
	if best == nil {
		if v, ok := paramVal(); ok {
			return v, true
		}
	}
	if best == nil && name == "rangeindex" {
		// innermost loop around the current point, written with an explicit index
		var hb *ssa.BasicBlock
		for h := range x.loops {
			if (h == at || h.Dominates(at)) && (hb == nil || hb.Dominates(h)) {
				hb = h
			}
		}
		if hb != nil {
			if v, ok := x.indexLoopVal(hb); ok {
				return v, true
			}
		}
	}
	if best == nil && !allowUndef {
		return Val{}, false
	}
	if best == nil {
		// the name exists in the function but is not defined on every path to
		// this point: an unconstrained value (can only make proofs harder)
		for _, b := range x.fn.Blocks {
			for _, in := range b.Instrs {
				var t types.Type
				switch in := in.(type) {
				case *ssa.Phi:
					if in.Comment == name {
						t = in.Type()
					}
				case *ssa.DebugRef:
					if id, ok := in.Expr.(*ast.Ident); ok && id.Name == name {
						if _, isFn := in.X.(*ssa.Function); !isFn {
							t = in.X.Type()
							if in.IsAddr {
								t = deref(t)
							}
						}
					}
				}
				if t != nil {
					if v, ok := x.undef[name]; ok {
						return v, true
					}
					v := x.freshVal("undef_"+name, t, "", "true")
					x.undef[name] = v
					return v, true
				}
			}
		}
		return Val{}, false
	}
	if bestIsAddr {
		l := x.locOf(best)
		t := e.load(st, l)
		pt := deref(best.Type())
		return Val{T: t, Sort: e.sortOf(pt), GT: pt}, true
	}
	return x.materialize(x.val(best)), true
}

// debugObj finds the object an identifier in the function's syntax refers to.
func debugObj(fn *ssa.Function, id *ast.Ident) types.Object {
	pkg := fn.Pkg
	if pkg == nil && fn.Parent() != nil {
		pkg = fn.Parent().Pkg
	}
	for f := fn; f != nil && pkg == nil; f = f.Parent() {
		pkg = f.Pkg
	}
	if pkg == nil {
		return nil
	}
	info := typesInfoFor(pkg)
	if info == nil {
		return nil
	}
	if o := info.Uses[id]; o != nil {
		return o
	}
	return info.Defs[id]
}

func domDepth(b *ssa.BasicBlock) int {
	d := 0
	for b.Idom() != nil {
		b = b.Idom()
		d++
	}
	return d
}

var fnOrdinals = map[string]int{}

// fnOrdinal numbers function names (per process); fnIdent is an uninterpreted
// function, so two function constants with different ordinals cannot be equal.
func fnOrdinal(name string) int {
	if n, ok := fnOrdinals[name]; ok {
		return n
	}
	n := len(fnOrdinals) + 1
	fnOrdinals[name] = n
	return n
}

// indexLoopVal: for a loop written `for i := 0; i < len(s); i++`, the hidden
// index of the equivalent range loop (i - 1) at the loop head.
func (x *Exec) indexLoopVal(h *ssa.BasicBlock) (Val, bool) {
	for _, in := range h.Instrs {
		iff, ok := in.(*ssa.If)
		if !ok {
			continue
		}
		cmp, ok := iff.Cond.(*ssa.BinOp)
		if !ok || cmp.Op != token.LSS {
			continue
		}
		phi, ok := cmp.X.(*ssa.Phi)
		if !ok || phi.Block() != h {
			continue
		}
		call, ok := cmp.Y.(*ssa.Call)
		if !ok {
			continue
		}
		if b, ok := call.Call.Value.(*ssa.Builtin); !ok || b.Name() != "len" {
			continue
		}
		if c0, ok := phi.Edges[0].(*ssa.Const); ok && c0.Int64() == 0 {
			if v, ok := x.vals[phi]; ok {
				return Val{T: fmt.Sprintf("(- %s 1)", v.T), Sort: "Int", GT: phi.Type()}, true
			}
		}
	}
	return Val{}, false
}

// takesLocks: the function itself calls Lock/RLock of a sync mutex.
func (x *Exec) takesLocks() bool {
	if x.fn == nil {
		return false
	}
	for _, b := range x.fn.Blocks {
		for _, in := range b.Instrs {
			ci, ok := in.(ssa.CallInstruction)
			if !ok {
				continue
			}
			if f := ci.Common().StaticCallee(); f != nil {
				switch f.String() {
				case "(*sync.Mutex).Lock", "(*sync.RWMutex).Lock", "(*sync.RWMutex).RLock":
					return true
				}
			}
		}
	}
	return false
}
