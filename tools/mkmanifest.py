#!/usr/bin/env python3
"""Regenerates /verif/MANIFEST.json from tools/props.json (claimed properties)
and properties.jsonl (everything else goes to not_applicable with its reason)."""
import json, os, subprocess
here = os.path.dirname(os.path.abspath(__file__))
root = os.path.dirname(here)
props = [json.loads(l) for l in open(os.path.join(root, "properties.jsonl"))]
claimed = json.load(open(os.path.join(here, "props.json")))
import subprocess
try:
    out = subprocess.run(["git", "-C", "/repo", "log", "--format=%h", "--grep=^verif:"], capture_output=True, text=True, check=True).stdout
    open(os.path.join(here, "hook_commits.txt"), "w").write(out)
except Exception:
    pass
hooks = [l.strip() for l in open(os.path.join(here, "hook_commits.txt")) if l.strip()] if os.path.exists(os.path.join(here, "hook_commits.txt")) else []
baseline = json.load(open("/root/.vp/BASELINE.json"))
checks = []
na = []
for p in props:
    pid = p["id"]
    c = claimed.get(pid)
    if not c or c.get("not_applicable"):
        na.append({"property_id": pid, "reason": (c or {}).get("not_applicable", "no check built yet in this session (work in progress; see DESIGN.md section 8)")})
        continue
    checks.append({
        "property_id": pid,
        "quick_cmd": f"./check {pid} --tier quick",
        "thorough_cmd": f"./check {pid} --tier thorough",
        "evidence_file": f"/verif/evidence/{pid}.json",
        "replay_cmd_template": f"./check {pid} --replay {{path}}",
        "engine": "govc",
        "level_claimed": {"category": "proof", "text": c["text"], "design_ref": c.get("design_ref", "DESIGN.md section 8, " + pid)},
        "level_note": c["note"],
        "technique": c.get("technique", "contract-based deductive verification: weakest-precondition VCs generated from go/ssa of the real functions under //@ contracts, discharged by z3/z3-new/cvc5"),
    })
m = {
    "version": 1,
    "setup_cmd": "./setup.sh",
    "hooks": {
        "guard": "verif",
        "enable": "go build -tags verif ./... (the tag only adds comment-only contracts_verif.go files read by govc)",
        "baseline_off_cmd": "cd /repo && go test -vet=off -count=1 ./...",
        "source_commits": hooks,
        "add_only": True,
    },
    "engines": [{
        "name": "govc",
        "path": "/verif/cmd/govc",
        "serves_properties": [c["property_id"] for c in checks],
        "kind_free_text": "own verification-condition generator for Go: loads /repo's working tree with go/packages + go/ssa, reads //@ contracts from comment-only *_verif.go files, symbolic execution with loop cutting into SMT-LIB obligations, solver race z3 4.8.12 / z3 5.1.0 / cvc5 1.0",
    }],
    "checks": checks,
    "not_applicable": na,
    "notes": "Every property is decided by discharging obligations generated from the current /repo source; see DESIGN.md. known_findings.txt lists recorded defects and fix: commits.",
}
json.dump(m, open(os.path.join(root, "MANIFEST.json"), "w"), indent=1)
print("checks:", len(checks), "not_applicable:", len(na))
