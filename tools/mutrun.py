#!/usr/bin/env python3
"""tools/mutrun.py <mutants-dir> <results.jsonl> [workers] [filter-regex]
Mutation run: for every mutant produced by tools/mutgen, in a scratch worktree of /repo's HEAD
(never in /repo) and a scratch copy of /verif (so evidence/replay files of the real tree are not touched):
  1. go build ./...            -> 'stillborn' if it fails
  2. the existing test suite   -> 'killed-by-tests' if it fails (these mutants are of no interest:
                                  the brief asks for changes that pass the existing tests)
  3. the quick check of every property whose contracts cover the mutated function
                               -> 'caught' if any prints VIOLATION, else 'SURVIVED'
Survivors are either equivalent mutants or holes in the contracts; they are reviewed by hand."""
import json, os, subprocess, sys, re, shutil, threading, queue, glob

mdir, out = sys.argv[1], sys.argv[2]
workers = int(sys.argv[3]) if len(sys.argv) > 3 else 4
flt = re.compile(sys.argv[4]) if len(sys.argv) > 4 else None
ENV = dict(os.environ, GOFLAGS="-mod=mod", GOPROXY="off", GOSUMDB="off", GOTOOLCHAIN="local")
done = set()
if os.path.exists(out):
    for l in open(out):
        try: done.add(json.loads(l)["id"])
        except Exception: pass
q = queue.Queue()
for d in sorted(glob.glob(os.path.join(mdir, "*"))):
    mid = os.path.basename(d)
    if mid in done: continue
    m = json.load(open(os.path.join(d, "meta.json")))
    if flt and not flt.search(m["func"] + " " + " ".join(m["props"])): continue
    q.put((mid, d, m))
lock = threading.Lock()

def sh(cmd, cwd, timeout):
    try:
        p = subprocess.run(cmd, cwd=cwd, env=ENV, shell=True, capture_output=True, text=True, timeout=timeout)
        return p.returncode, p.stdout + p.stderr
    except subprocess.TimeoutExpired:
        return 124, "timeout"

def worker(k):
    wt = f"/var/tmp/mutwt-{k}"
    vf = f"/var/tmp/mutvf-{k}"
    subprocess.run(f"git -C /repo worktree remove --force {wt} 2>/dev/null; rm -rf {wt} {vf}", shell=True)
    subprocess.run(f"git -C /repo worktree add -q --detach {wt} HEAD", shell=True, check=True)
    subprocess.run(f"rsync -a --exclude .git --exclude 'replay/C*' --exclude seeded --exclude benign --exclude benign-limits /verif/ {vf}/", shell=True, check=True)
    try:
        while True:
            try: mid, d, m = q.get_nowait()
            except queue.Empty: return
            rec = dict(id=mid, **m)
            target = os.path.join(wt, m["file"])
            orig = open(target).read()
            shutil.copy(os.path.join(d, "mutated.go"), target)
            sh("gofmt -w " + m["file"], wt, 30)
            try:
                rc, o = sh("go build ./... ", wt, 180)
                if rc != 0:
                    rec["status"] = "stillborn"
                else:
                    rc, o = sh("go test -vet=off -count=1 -timeout 150s -skip 'TestIntegration|TestAdvertiserLinux' ./internal/...", wt, 300)
                    if rc != 0:
                        rec["status"] = "killed-by-tests"
                    else:
                        caught = []
                        for p in m["props"]:
                            rc, o = sh(f"./check {p} --root {wt}", vf, 900)
                            v = [l for l in o.split("\n") if l.startswith("VIOLATION")]
                            if v:
                                ob = re.search(r"obligation=(\S+)", v[0])
                                caught.append(p + ":" + (ob.group(1) if ob else "?"))
                            elif rc not in (0, 1):
                                caught.append(p + ":check-rc-" + str(rc))
                        rec["caught_by"] = caught
                        rec["status"] = "caught" if caught else "SURVIVED"
            finally:
                open(target, "w").write(orig)
            with lock:
                with open(out, "a") as f: f.write(json.dumps(rec) + "\n")
                print(mid, rec["status"], m["func"], m["line"], m["desc"], rec.get("caught_by", ""), flush=True)
    finally:
        subprocess.run(f"git -C /repo worktree remove --force {wt}; rm -rf {wt} {vf}", shell=True)

ts = [threading.Thread(target=worker, args=(k,)) for k in range(workers)]
for t in ts: t.start()
for t in ts: t.join()
