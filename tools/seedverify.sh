#!/bin/sh
# tools/seedverify.sh <Cnn> <pkgdir> [seeddir]: confirm a sub-agent's seeded change in its scratch worktree:
# the patch applies to a clean tree, builds, existing suite passes (known-bad tests excepted),
# demo fails with the change and passes without it. No git stash (shared between worktrees).
ID=$1; PKG=$2; WT=/tmp/wt-$ID; OUT=${3:-/tmp/seed-$ID}
export GOFLAGS=-mod=mod GOPROXY=off GOSUMDB=off GOTOOLCHAIN=local
cd $WT || exit 2
git checkout -q -- . && git clean -fdq
git apply $OUT/patch.diff || { echo "PATCH DOES NOT APPLY"; exit 1; }
git status --short
go build ./... || { echo "BUILD FAILED"; exit 1; }
echo "--- suite WITH change (only failures listed; expect none):"
go test -vet=off -count=1 ./... 2>&1 | grep -E "^--- FAIL" | grep -v "TestIntegrationWatcherWatch\|TestAdvertiserLinux\|TestIntegrationAddresserAddresses"
cp $OUT/demo_test.go $WT/$PKG/zz_demo_test.go
echo "--- demo WITH change (expect FAIL):"
go test -vet=off -count=1 -run 'Demo|C[0-9][0-9]' ./$PKG 2>&1 | tail -3
git apply -R $OUT/patch.diff
echo "--- demo WITHOUT change (expect ok):"
go test -vet=off -count=1 -run 'Demo|C[0-9][0-9]' ./$PKG 2>&1 | tail -3
rm -f $WT/$PKG/zz_demo_test.go
git checkout -q -- .
