#!/bin/sh
# tools/seedtest.sh <dir with patch.diff> <Cnn...>: apply a seeded change to /repo, run the checks, undo it.
D=$1; shift
cd /repo && git apply $D/patch.diff || { echo "patch does not apply"; exit 2; }
for P in "$@"; do (cd /verif && ./check $P 2>&1 | grep -E "VIOLATION|govc:" | sed -E 's/clause="[^"]*"//' | cut -c1-400); done
cd /repo && git apply -R $D/patch.diff && git status --short
