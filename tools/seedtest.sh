#!/bin/sh
# tools/seedtest.sh <dir with patch.diff> <Cnn...>: apply a seeded change to a scratch worktree of /repo's HEAD
# (never to /repo itself), run the checks against it with --root, remove the worktree.
D=$1; shift
WT=/var/tmp/govc-seedtest-$$
git -C /repo worktree add -q --detach $WT HEAD || exit 2
trap 'git -C /repo worktree remove --force $WT 2>/dev/null; rm -rf $WT' EXIT INT TERM
git -C $WT apply $D/patch.diff || { echo "patch does not apply"; exit 2; }
for P in "$@"; do (cd /verif && ./check $P --root $WT 2>&1 | grep -E "VIOLATION|govc:" | sed -E 's/clause="[^"]*"//' | cut -c1-400); done
