#!/usr/bin/env python3
"""tools/seedkeep.py <seed-id> <property> <pkgdir> <srcdir> <needs> <caught-by...>
Store a confirmed seeded change under /verif/seeded/<seed-id>/ (patch.diff, demo_test.go, meta.json)."""
import sys, os, shutil, json
sid, prop, pkg, src, needs = sys.argv[1:6]
caught = sys.argv[6:]
d = f"/verif/seeded/{sid}"
os.makedirs(d, exist_ok=True)
shutil.copy(f"{src}/patch.diff", f"{d}/patch.diff")
shutil.copy(f"{src}/demo_test.go", f"{d}/demo_test.go")
meta = {
    "property": prop,
    "origin": "fresh sub-agent given only the property text and a scratch worktree of /repo",
    "demo_package": pkg,
    "needs_to_manifest": needs,
    "confirmed_by": [
        f"tools/seedverify.sh {prop} {pkg} {d}: patch applies to a clean scratch worktree, go build ./... ok, existing suite passes with the change (environment-dependent integration tests excepted), demo_test.go fails with the change and passes without it",
        f"tools/seedtest.sh {d} {prop}: git -C /repo apply patch.diff; ./check {prop}; git -C /repo apply -R patch.diff",
    ],
    "caught_by": caught,
}
json.dump(meta, open(f"{d}/meta.json", "w"), indent=1)
print("kept", d)
