#!/bin/sh
# tools/selftest.sh [seeded|benign|all] [filter]: the must-fail / must-pass corpus.
#  seeded/<id>/patch.diff : realistic property-breaking changes; the property's check must print VIOLATION
#  benign/<id>/patch.diff : behaviour-preserving edits (renames, reorderings, logging); the listed checks must stay green
# Each patch is applied to /repo with git apply, the checks run, and the patch is reverted straight afterwards.
MODE=${1:-all}; FILTER=${2:-.}
cd /repo || exit 2
if [ -n "$(git status --porcelain)" ]; then echo "selftest: /repo has local changes; refusing to run"; exit 2; fi
FAIL=0
run() { # dir expect(VIOLATION|GREEN) props...
  D=$1; EXP=$2; shift 2
  git -C /repo apply $D/patch.diff || { echo "SELFTEST-ERROR $D: patch does not apply"; FAIL=1; return; }
  for P in "$@"; do
    OUT=$(cd /verif && ./check $P 2>&1); RC=$?
    N=$(echo "$OUT" | grep -c '^VIOLATION')
    if [ "$EXP" = VIOLATION ]; then
      if [ $RC -eq 1 ] && [ $N -gt 0 ]; then echo "ok   $(basename $D) $P: caught ($N) $(echo "$OUT" | grep -m1 -o 'obligation=[^ ]*')"; else echo "MISS $(basename $D) $P: rc=$RC"; FAIL=1; fi
    else
      if [ $RC -eq 0 ] && [ $N -eq 0 ]; then echo "ok   $(basename $D) $P: green"; else echo "FALSE-ALARM $(basename $D) $P: rc=$RC $(echo "$OUT" | grep -m2 '^VIOLATION' | cut -c1-300)"; FAIL=1; fi
    fi
  done
  git -C /repo apply -R $D/patch.diff
}
if [ $MODE = seeded ] || [ $MODE = all ]; then
  for D in /verif/seeded/*/; do
    echo "$D" | grep -q "$FILTER" || continue
    P=$(python3 -c "import json,sys; print(json.load(open('$D/meta.json'))['property'])")
    run $D VIOLATION $P
  done
fi
if [ $MODE = benign ] || [ $MODE = all ]; then
  for D in /verif/benign/*/; do
    echo "$D" | grep -q "$FILTER" || continue
    PS=$(python3 -c "import json,sys; print(json.load(open('$D/meta.json'))['properties'])")
    run $D GREEN $PS
  done
fi
git -C /repo status --short
[ $FAIL -eq 0 ] && echo "selftest: all as expected" || echo "selftest: UNEXPECTED RESULTS"
exit $FAIL
