#!/bin/sh
# tools/selftest.sh [seeded|benign|all] [filter]: the must-fail / must-pass corpus.
#  seeded/<id>/patch.diff : realistic property-breaking changes; the property's check must print VIOLATION
#  benign/<id>/patch.diff : behaviour-preserving edits (renames, reorderings, logging); the listed checks must stay green
MODE=${1:-all}; FILTER=${2:-.}
# The patches are applied to a scratch worktree of /repo's HEAD (never to /repo itself), which is removed at the end.
WT=/var/tmp/govc-selftest-$$
git -C /repo worktree add -q --detach $WT HEAD || exit 2
trap 'git -C /repo worktree remove --force $WT 2>/dev/null; rm -rf $WT' EXIT INT TERM
VERIF=$(cd "$(dirname "$0")/.." && pwd)
FAIL=0
run() { # dir expect(VIOLATION|GREEN) props...
  D=$1; EXP=$2; shift 2
  git -C $WT apply $D/patch.diff || { echo "SELFTEST-ERROR $D: patch does not apply"; FAIL=1; return; }
  for P in "$@"; do
    OUT=$(cd $VERIF && ./check $P --root $WT 2>&1); RC=$?
    N=$(echo "$OUT" | grep -c '^VIOLATION')
    if [ "$EXP" = VIOLATION ]; then
      if [ $RC -eq 1 ] && [ $N -gt 0 ]; then echo "ok   $(basename $D) $P: caught ($N) $(echo "$OUT" | grep -m1 -o 'obligation=[^ ]*')"; else echo "MISS $(basename $D) $P: rc=$RC"; FAIL=1; fi
    else
      if [ $RC -eq 0 ] && [ $N -eq 0 ]; then echo "ok   $(basename $D) $P: green"; else echo "FALSE-ALARM $(basename $D) $P: rc=$RC $(echo "$OUT" | grep -m2 '^VIOLATION' | cut -c1-300)"; FAIL=1; fi
    fi
  done
  git -C $WT apply -R $D/patch.diff
}
if [ $MODE = seeded ] || [ $MODE = all ]; then
  for D in $VERIF/seeded/*/; do
    echo "$D" | grep -q "$FILTER" || continue
    P=$(python3 -c "import json,sys; print(json.load(open('$D/meta.json'))['property'])")
    # a seed recorded as an open gap (meta.json status=missed) is reported, not counted as a regression of the machinery
    if [ "$(python3 -c "import json; print(json.load(open('$D/meta.json')).get('status',''))")" = missed ]; then echo "KNOWN-MISS $(basename $D) $P (open gap, see meta.json)"; continue; fi
    run $D VIOLATION $P
  done
fi
if [ $MODE = benign ] || [ $MODE = all ]; then
  for D in $VERIF/benign/*/; do
    echo "$D" | grep -q "$FILTER" || continue
    PS=$(python3 -c "import json,sys; print(json.load(open('$D/meta.json'))['properties'])")
    run $D GREEN $PS
  done
fi
git -C $WT status --short
[ $FAIL -eq 0 ] && echo "selftest: all as expected" || echo "selftest: UNEXPECTED RESULTS"
exit $FAIL
