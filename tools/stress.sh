#!/bin/sh
# Runs every claimed check N times with J checks in parallel (CPU contention) and reports any non-green run.
# Builds its own govc binary so that it can run from a snapshot.
N=${1:-3}; J=${2:-3}
cd "$(dirname "$0")/.."
./setup.sh >/dev/null
fail=0
for round in $(seq 1 $N); do
  for p in C01 C02 C03 C04 C05 C06 C07 C08 C09 C10 C11 C12 C13 C14 C15 C16 C17 C18 C19 C20; do echo $p; done | \
  xargs -P $J -I{} sh -c './bin/govc -prop {} -tier quick -root /repo -verif "$(pwd)" -evidence /tmp/stress-{}.json > /tmp/stress-{}.$$.log 2>&1; tail -1 /tmp/stress-{}.$$.log | grep -q "violations=0" || { echo "ROUND '$round' NOT GREEN: {}"; grep VIOLATION /tmp/stress-{}.$$.log | cut -c1-200; }; rm -f /tmp/stress-{}.$$.log /tmp/stress-{}.json'
done
echo "stress done"
