#!/usr/bin/env python3
"""Runs the repository's test suite (guard off) and compares with BASELINE.json stable_pass."""
import json, subprocess, os, sys
env = dict(os.environ, GOFLAGS="-mod=mod", GOPROXY="off", GOSUMDB="off", GOTOOLCHAIN="local")
p = subprocess.run(["go", "test", "-json", "-vet=off", "-count=1", "-timeout", "25m", "./..."], cwd="/repo", env=env, capture_output=True, text=True)
res = {}
for l in p.stdout.splitlines():
    try:
        e = json.loads(l)
    except Exception:
        continue
    if e.get("Test") and e.get("Action") in ("pass", "fail", "skip"):
        res[e["Package"] + "::" + e["Test"]] = e["Action"]
base = json.load(open("/root/.vp/BASELINE.json"))
bad = [t for t in base["stable_pass"] if res.get(t) != "pass"]
print("stable:", len(base["stable_pass"]), "not passing:", len(bad))
for t in bad:
    print("  ", t, res.get(t))
sys.exit(1 if bad else 0)
