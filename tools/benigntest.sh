#!/bin/sh
# tools/benigntest.sh <dir with patch.diff + equiv_test.go> <pkgdir> <Cnn...>: a behaviour-preserving refactoring
# must (1) apply, build and pass the suite's packages it touches, (2) pass its equivalence test with and
# without the change, (3) leave every listed check green. Runs on a scratch worktree of /repo's HEAD.
D=$1; PKG=$2; shift 2
export GOFLAGS=-mod=mod GOPROXY=off GOSUMDB=off GOTOOLCHAIN=local
WT=/var/tmp/govc-benign-$$
git -C /repo worktree add -q --detach $WT HEAD || exit 2
trap 'git -C /repo worktree remove --force $WT 2>/dev/null; rm -rf $WT' EXIT INT TERM
cp $D/equiv_test.go $WT/$PKG/zz_equiv_test.go
(cd $WT && go test -vet=off -count=1 -run 'Equiv' ./$PKG 2>&1 | tail -1 | sed 's/^/equiv WITHOUT change: /')
git -C $WT apply $D/patch.diff || { echo "patch does not apply"; exit 2; }
(cd $WT && go build ./... && go test -vet=off -count=1 -run 'Equiv' ./$PKG 2>&1 | tail -1 | sed 's/^/equiv WITH change:    /')
(cd $WT && go test -vet=off -count=1 ./internal/config ./internal/corerad ./internal/plugin ./internal/crhttp 2>&1 | grep -E "^(--- FAIL|FAIL)" | grep -v TestAdvertiserLinux | sed 's/^/suite: /')
rm -f $WT/$PKG/zz_equiv_test.go
RC=0
for P in "$@"; do
  OUT=$(cd /verif && ./check $P --root $WT 2>&1)
  if echo "$OUT" | grep -q '^VIOLATION'; then echo "FALSE-ALARM $P: $(echo "$OUT" | grep -m3 '^VIOLATION' | cut -c1-330)"; RC=1; else echo "green $P: $(echo "$OUT" | grep 'govc: prop' | cut -c1-120)"; fi
done
exit $RC
