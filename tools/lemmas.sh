#!/bin/sh
# tools/lemmas.sh: discharge the lemma files that justify axioms of lib/prelude.smt2; every answer must be unsat.
cd "$(dirname "$0")/.."
RC=0
for f in lemmas/*.smt2; do
  OUT=$(z3-new -T:60 $f 2>&1)
  N=$(echo "$OUT" | grep -c '^unsat$'); T=$(grep -c '^(check-sat)' $f)
  if [ "$N" = "$T" ]; then echo "lemma file $f: $N/$T unsat (z3-new)"; else echo "LEMMA-FAILED $f: $N/$T unsat: $(echo $OUT | cut -c1-200)"; RC=1; fi
done
exit $RC
