#!/bin/sh
# tools/mut.sh <prop> <file> <sed-expr>: apply a one-line mutation to /repo, run the check, restore.
P=$1; F=$2; E=$3
cd /repo && sed -i "$E" "$F" && (git diff --stat | tail -1) && (go build ./... 2>&1 | head -3)
cd /verif && ./check $P 2>&1 | grep -E "VIOLATION|govc:" | cut -c1-260
cd /repo && git checkout -- .
