#!/bin/sh
# tools/mut.sh <prop> <file> <sed-expr>: apply a one-line mutation to one file in /repo, run the check, restore that file only.
P=$1; F=$2; E=$3
cp /repo/$F /var/tmp/mut.bak || exit 1
cd /repo && sed -i "$E" "$F"
if cmp -s /repo/$F /var/tmp/mut.bak; then echo "MUTATION DID NOT APPLY"; fi
(go build ./... 2>&1 | head -3)
cd /verif && ./check $P 2>&1 | grep -E "VIOLATION|govc:" | cut -c1-260
cp /var/tmp/mut.bak /repo/$F && rm -f /var/tmp/mut.bak
