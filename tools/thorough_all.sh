#!/bin/sh
# tools/thorough_all.sh: run the thorough tier of every property on the unchanged tree (expected: no VIOLATION)
cd "$(dirname "$0")/.."
./setup.sh >/dev/null 2>&1
for i in 01 02 03 04 05 06 07 08 09 10 11 12 13 14 15 16 17 18 19 20; do
  ./check C$i --tier thorough 2>&1 | grep -E "VIOLATION|govc: prop|KNOWN" | cut -c1-260
done
