// mutgen: systematic first-order mutants of the functions under contract, for
// measuring what the checks catch beyond the existing tests (tools/mutrun.py).
// Usage: mutgen -root /repo -funcs funcs.json -out /var/tmp/mutants
// funcs.json: {"corerad.(*Advertiser).schedule": ["C06","C07"], ...} (closures folded into their parent)
package main

import (
	"bytes"
	"encoding/json"
	"flag"
	"fmt"
	"go/ast"
	"go/parser"
	"go/printer"
	"go/token"
	"os"
	"path/filepath"
	"sort"
	"strconv"
	"strings"
)

type meta struct {
	File  string   `json:"file"`
	Func  string   `json:"func"`
	Line  int      `json:"line"`
	Desc  string   `json:"desc"`
	Props []string `json:"props"`
}

func recvName(fd *ast.FuncDecl) string {
	if fd.Recv == nil || len(fd.Recv.List) == 0 {
		return ""
	}
	t := fd.Recv.List[0].Type
	star := ""
	if s, ok := t.(*ast.StarExpr); ok {
		star = "*"
		t = s.X
	}
	if ix, ok := t.(*ast.IndexExpr); ok {
		t = ix.X
	}
	if id, ok := t.(*ast.Ident); ok {
		return "(" + star + id.Name + ")"
	}
	return "?"
}

func main() {
	root := flag.String("root", "/repo", "")
	funcsF := flag.String("funcs", "", "")
	out := flag.String("out", "/var/tmp/mutants", "")
	flag.Parse()
	b, err := os.ReadFile(*funcsF)
	if err != nil {
		panic(err)
	}
	funcs := map[string][]string{}
	if err := json.Unmarshal(b, &funcs); err != nil {
		panic(err)
	}
	n := 0
	dirs, _ := filepath.Glob(filepath.Join(*root, "internal", "*"))
	sort.Strings(dirs)
	for _, dir := range dirs {
		files, _ := filepath.Glob(filepath.Join(dir, "*.go"))
		sort.Strings(files)
		for _, f := range files {
			if strings.HasSuffix(f, "_test.go") || strings.HasSuffix(f, "_verif.go") || strings.HasSuffix(f, "_windows.go") || strings.HasSuffix(f, "_others.go") {
				continue
			}
			src, _ := os.ReadFile(f)
			fset := token.NewFileSet()
			af, err := parser.ParseFile(fset, f, src, parser.ParseComments)
			if err != nil {
				continue
			}
			pkg := af.Name.Name
			for _, d := range af.Decls {
				fd, ok := d.(*ast.FuncDecl)
				if !ok || fd.Body == nil {
					continue
				}
				name := pkg + "." + fd.Name.Name
				if r := recvName(fd); r != "" {
					name = pkg + "." + r + "." + fd.Name.Name
				}
				props, ok := funcs[name]
				if !ok {
					continue
				}
				// enumerate mutation points
				type mut struct {
					apply, undo func()
					desc        string
					pos         token.Pos
				}
				var muts []mut
				swap := map[token.Token][]token.Token{
					token.EQL: {token.NEQ}, token.NEQ: {token.EQL},
					token.LSS: {token.LEQ, token.GEQ}, token.LEQ: {token.LSS}, token.GTR: {token.GEQ, token.LEQ}, token.GEQ: {token.GTR},
					token.LAND: {token.LOR}, token.LOR: {token.LAND},
					token.ADD: {token.SUB}, token.SUB: {token.ADD},
				}
				ast.Inspect(fd.Body, func(nd ast.Node) bool {
					switch x := nd.(type) {
					case *ast.BinaryExpr:
						if x.Op == token.ADD {
							if bl, ok := x.X.(*ast.BasicLit); ok && bl.Kind == token.STRING {
								return true
							}
							if bl, ok := x.Y.(*ast.BasicLit); ok && bl.Kind == token.STRING {
								return true
							}
						}
						for _, to := range swap[x.Op] {
							from, to := x.Op, to
							xx := x
							muts = append(muts, mut{func() { xx.Op = to }, func() { xx.Op = from }, fmt.Sprintf("%s -> %s", from, to), x.OpPos})
						}
					case *ast.IfStmt:
						xx := x
						orig := x.Cond
						muts = append(muts, mut{func() { xx.Cond = &ast.UnaryExpr{Op: token.NOT, X: &ast.ParenExpr{X: orig}} }, func() { xx.Cond = orig }, "negate if condition", x.Cond.Pos()})
					case *ast.BranchStmt:
						if x.Label == nil && (x.Tok == token.CONTINUE || x.Tok == token.BREAK) {
							xx := x
							from := x.Tok
							to := token.BREAK
							if from == token.BREAK {
								to = token.CONTINUE
							}
							muts = append(muts, mut{func() { xx.Tok = to }, func() { xx.Tok = from }, fmt.Sprintf("%s -> %s", from, to), x.Pos()})
						}
					case *ast.BasicLit:
						if x.Kind == token.INT {
							if v, err := strconv.ParseInt(x.Value, 0, 64); err == nil && v >= 0 && v < 100000 {
								xx := x
								orig := x.Value
								muts = append(muts, mut{func() { xx.Value = strconv.FormatInt(v+1, 10) }, func() { xx.Value = orig }, fmt.Sprintf("literal %s -> %d", orig, v+1), x.Pos()})
								if v > 0 {
									muts = append(muts, mut{func() { xx.Value = strconv.FormatInt(v-1, 10) }, func() { xx.Value = orig }, fmt.Sprintf("literal %s -> %d", orig, v-1), x.Pos()})
								}
							}
						}
					case *ast.Ident:
						if x.Name == "true" || x.Name == "false" {
							xx := x
							orig := x.Name
							to := "true"
							if orig == "true" {
								to = "false"
							}
							muts = append(muts, mut{func() { xx.Name = to }, func() { xx.Name = orig }, orig + " -> " + to, x.Pos()})
						}
					case *ast.BlockStmt:
						for i, st := range x.List {
							switch s := st.(type) {
							case *ast.ExprStmt, *ast.IncDecStmt, *ast.DeferStmt, *ast.GoStmt:
								_ = s
							case *ast.AssignStmt:
								if s.Tok == token.DEFINE {
									continue
								}
							default:
								continue
							}
							xx := x
							ii := i
							orig := st
							muts = append(muts, mut{func() { xx.List[ii] = &ast.EmptyStmt{Implicit: false} }, func() { xx.List[ii] = orig }, "delete statement", st.Pos()})
						}
					}
					return true
				})
				for _, m := range muts {
					m.apply()
					var buf bytes.Buffer
					err := printer.Fprint(&buf, fset, af)
					m.undo()
					if err != nil {
						continue
					}
					n++
					d := filepath.Join(*out, fmt.Sprintf("%05d", n))
					os.MkdirAll(d, 0o755)
					rel, _ := filepath.Rel(*root, f)
					os.WriteFile(filepath.Join(d, "mutated.go"), buf.Bytes(), 0o644)
					mb, _ := json.Marshal(meta{File: rel, Func: name, Line: fset.Position(m.pos).Line, Desc: m.desc, Props: props})
					os.WriteFile(filepath.Join(d, "meta.json"), mb, 0o644)
				}
			}
		}
	}
	fmt.Println("mutants:", n)
}
