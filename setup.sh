#!/bin/sh
# setup_cmd: build the verifier offline from vendored sources.
set -e
cd "$(dirname "$0")"
export GOFLAGS=-mod=vendor GOPROXY=off GOSUMDB=off GOTOOLCHAIN=local CGO_ENABLED=0
mkdir -p bin evidence replay
go build -o bin/govc ./cmd/govc
echo "govc built"
