// Package conformance samples the ASSUMED part of the verification against the
// real Go library: every axiom of /verif/lib/prelude.smt2 about net/netip, the
// definitional duration helpers, and the library contracts of
// /verif/lib/stdlib.spec that carry arithmetic or ordering content are
// re-stated here as executable predicates and evaluated on boundary values and
// pseudo-random samples. This is a BOUNDED check (stated bound: the sample
// counts below); it does not prove the axioms, it guards against transcription
// errors in them. Run by `./check Cnn --tier thorough` and tools/conformance.sh.
package conformance

import (
	"errors"
	"fmt"
	"math/rand"
	"net/netip"
	"slices"
	"testing"
	"time"
)

const samples = 20000

// ---- prelude definitions, transcribed ----

func godiv(a, b int64) int64 { return a / b } // Go's / truncates like godiv
func gomod(a, b int64) int64 { return a % b }
func durTrunc(d, m int64) int64 { return d - gomod(d, m) }
func durRound(d, m int64) int64 {
	r := gomod(d, m)
	if d < 0 {
		if -r+-r < m {
			return d - r
		}
		return d - r - m
	}
	if r+r < m {
		return d - r
	}
	return d - r + m
}
func emod(d, m int64) int64 { r := d % m; if r < 0 { r += m }; return r } // SMT-LIB mod
func floorSec(d int64) int64 { return d - emod(d, 1e9) }
func ceilSec(d int64) int64  { x := d + 999999999; return x - emod(x, 1e9) }
func unixSec(t int64) int64  { return (t - emod(t, 1e9)) / 1e9 } // SMT-LIB div

func durs(r *rand.Rand) []int64 {
	out := []int64{0, 1, -1, 499999999, 500000000, 500000001, 999999999, 1e9, 1e9 + 1, 1<<62 - 1, 1 << 62, -(1 << 62), 16e9, 3e9, 4e9}
	for i := 0; i < samples; i++ {
		out = append(out, r.Int63n(1<<62)-r.Int63n(1<<62), r.Int63n(20e9)-10e9)
	}
	return out
}

func TestDurationHelpers(t *testing.T) {
	r := rand.New(rand.NewSource(1))
	ms := []int64{1, 2, 3, 1e6, 1e9, 8e9, 60e9, 1 << 62}
	for _, d := range durs(r) {
		for _, m := range ms {
			if got, want := durRound(d, m), int64(time.Duration(d).Round(time.Duration(m))); got != want {
				t.Fatalf("durRound(%d,%d) = %d, time.Duration.Round gives %d", d, m, got, want)
			}
			if got, want := durTrunc(d, m), int64(time.Duration(d).Truncate(time.Duration(m))); got != want {
				t.Fatalf("durTrunc(%d,%d) = %d, Truncate gives %d", d, m, got, want)
			}
		}
		if d >= 0 && d < 1<<61 {
			if got, want := floorSec(d), int64(time.Duration(d).Truncate(time.Second)); got != want {
				t.Fatalf("floorSec(%d) = %d want %d", d, got, want)
			}
			c := ceilSec(d)
			if c < d || c-d >= 1e9 || c%1e9 != 0 {
				t.Fatalf("ceilSec(%d) = %d is not the least whole second >= d", d, c)
			}
			// time.Time as nanoseconds since the Unix epoch on one time line
			if got, want := unixSec(d), time.Unix(0, d).Unix(); got != want {
				t.Fatalf("unixSec(%d) = %d, time.Unix(0,d).Unix() = %d", d, got, want)
			}
		}
	}
}

// ---- net/netip axioms ----

func addrs(r *rand.Rand) []netip.Addr {
	out := []netip.Addr{{}, netip.IPv6Unspecified(), netip.IPv6LinkLocalAllNodes(), netip.IPv6LinkLocalAllRouters(), netip.IPv6Loopback()}
	for _, s := range []string{"fe80::1", "fe80::1%eth0", "febf:ffff::1", "fec0::1", "fc00::1", "fd00::53", "fdff:ffff::", "fe00::1", "2001:db8::1",
		"2001:db8::", "::ffff:192.0.2.1", "192.0.2.1", "10.0.0.1", "169.254.1.1", "ff02::1", "ff05::2", "64:ff9b::", "2001:db8:0:1::", "2001:db8::aaff:fe00:1"} {
		out = append(out, netip.MustParseAddr(s))
	}
	for i := 0; i < 400; i++ {
		var b [16]byte
		r.Read(b[:])
		if i%4 == 0 {
			copy(b[:], []byte{0xfd, 0, 0, 0, 0, 0, 0, byte(i)})
		}
		if i%5 == 0 {
			for k := 8; k < 16; k++ {
				b[k] = 0
			}
		}
		out = append(out, netip.AddrFrom16(b))
		if i%50 == 0 {
			out = append(out, netip.AddrFrom4([4]byte{b[0], b[1], b[2], b[3]}))
		}
	}
	return out
}

func sgn(x int) int {
	switch {
	case x < 0:
		return -1
	case x > 0:
		return 1
	}
	return 0
}

func TestNetipAxioms(t *testing.T) {
	r := rand.New(rand.NewSource(2))
	as := addrs(r)
	// allNodesAddr facts
	an := netip.IPv6LinkLocalAllNodes()
	if !an.IsMulticast() || !an.IsValid() || an.IsUnspecified() || (netip.Addr{}).IsValid() {
		t.Fatal("well-known address facts")
	}
	for _, a := range as {
		for _, b := range as {
			c := a.Compare(b)
			if (c == 0) != (a == b) {
				t.Fatalf("compare==0 <=> equal fails for %v %v", a, b)
			}
			if (c < 0) != (b.Compare(a) > 0) {
				t.Fatalf("antisymmetry fails for %v %v", a, b)
			}
			if a.Less(b) != (c < 0) {
				t.Fatalf("Less fails for %v %v", a, b)
			}
		}
		if a.IsPrivate() && !a.IsGlobalUnicast() {
			t.Fatalf("IsPrivate => IsGlobalUnicast fails for %v", a)
		}
		if a.IsLinkLocalUnicast() && a.IsGlobalUnicast() {
			t.Fatalf("link-local => !global unicast fails for %v", a)
		}
		if a.Is4() && a.Is6() {
			t.Fatalf("Is4 and Is6 both hold for %v", a)
		}
		if a.WithZone("").Zone() != "" || a.WithZone("").WithZone("") != a.WithZone("") {
			t.Fatalf("WithZone(\"\") for %v", a)
		}
	}
	for i := 0; i < samples; i++ { // transitivity on random triples
		a, b, c := as[r.Intn(len(as))], as[r.Intn(len(as))], as[r.Intn(len(as))]
		if a.Compare(b) <= 0 && b.Compare(c) <= 0 && a.Compare(c) > 0 {
			t.Fatalf("transitivity fails for %v %v %v", a, b, c)
		}
	}
	// prefixes
	var ps []netip.Prefix
	for _, a := range as {
		for _, bits := range []int{-1, 0, 1, 8, 32, 33, 48, 56, 63, 64, 65, 96, 127, 128, 129} {
			p := netip.PrefixFrom(a, bits)
			if 0 <= bits && bits <= 128 && a.IsValid() {
				// mkPfx axiom as used: Addr()/Bits() of a prefix built from an address (zone aside)
				if p.Bits() != bits && p.IsValid() {
					t.Fatalf("PrefixFrom bits %v/%d", a, bits)
				}
			}
			if p.Bits() < -1 || p.Bits() > 128 {
				t.Fatalf("pfxBits range %v", p)
			}
			if p.IsValid() {
				if p.Bits() < 0 || !p.Addr().IsValid() {
					t.Fatalf("valid prefix facts %v", p)
				}
				m := p.Masked()
				if !m.IsValid() || m.Bits() != p.Bits() || m.Masked() != m {
					t.Fatalf("Masked facts %v -> %v", p, m)
				}
				ps = append(ps, p, m)
			}
		}
	}
	if (netip.Prefix{}).IsValid() || (netip.Prefix{}).Addr() != (netip.Addr{}) {
		t.Fatal("zero prefix facts")
	}
	for i := 0; i < 40*samples; i++ {
		p, q := ps[r.Intn(len(ps))], ps[r.Intn(len(ps))]
		if p.Addr() == q.Addr() && p.Bits() == q.Bits() && p != q {
			t.Fatalf("prefix extensionality fails: %v %v", p, q)
		}
		// a masked IPv6 prefix contains the base address of every longer masked prefix with the same base
		if p.Masked() == p && q.Masked() == q && !p.Addr().Is4() && !q.Addr().Is4() && p.Addr() == q.Addr() && p.Bits() < q.Bits() && !p.Contains(q.Addr()) {
			t.Fatalf("containment lemma fails: %v does not contain %v", p, q.Addr())
		}
	}
}

// ---- library contracts with arithmetic / ordering content ----

func TestLibraryContracts(t *testing.T) {
	r := rand.New(rand.NewSource(3))
	for i := 0; i < samples; i++ {
		n := r.Int63n(1<<62) + 1
		if v := r.Int63n(n); v < 0 || v >= n {
			t.Fatalf("Int63n(%d) = %d", n, v)
		}
	}
	// slices.SortStableFunc: sorted permutation, stable
	for i := 0; i < 2000; i++ {
		n := r.Intn(12)
		type kv struct{ k, seq int }
		in := make([]kv, n)
		for j := range in {
			in[j] = kv{r.Intn(4), j}
		}
		out := slices.Clone(in)
		slices.SortStableFunc(out, func(a, b kv) int { return a.k - b.k })
		cnt := map[kv]int{}
		for _, x := range in {
			cnt[x]++
		}
		for j, x := range out {
			cnt[x]--
			if j > 0 && (out[j-1].k > x.k || (out[j-1].k == x.k && out[j-1].seq > x.seq)) {
				t.Fatalf("SortStableFunc not sorted/stable: %v", out)
			}
		}
		for _, c := range cnt {
			if c != 0 {
				t.Fatalf("SortStableFunc not a permutation")
			}
		}
	}
	// errors: %w keeps the class, other verbs drop it; Is is reflexive on non-nil
	base := errors.New("base")
	if !errors.Is(fmt.Errorf("x: %w", base), base) || errors.Is(fmt.Errorf("x: %v", base), base) || !errors.Is(base, base) || errors.Is(nil, base) {
		t.Fatal("errors.Is / %w model")
	}
	// time: Add/Sub/Before/After/Equal as integer arithmetic on one time line (1970..2116)
	t0 := time.Unix(0, 0)
	for i := 0; i < samples; i++ {
		a, b := r.Int63n(1<<62), r.Int63n(1<<62)
		ta, tb := t0.Add(time.Duration(a)), t0.Add(time.Duration(b))
		if ta.Sub(tb) != time.Duration(a-b) || ta.Before(tb) != (a < b) || ta.After(tb) != (a > b) || ta.Equal(tb) != (a == b) || ta.UnixNano() != a {
			t.Fatalf("time arithmetic model fails for %d %d", a, b)
		}
	}
}
